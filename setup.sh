#!/bin/sh
# Builds the harness test binaries from files on disk only (offline).
set -e
cd "$(dirname "$0")"
exec ./check --build
