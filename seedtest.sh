#!/bin/bash
# usage: seedtest.sh <seed-id> <worktree> <property> [tier...]
# Confirms a seeded change in its worktree (demo fails with it, passes without, suite passes),
# applies it to /repo, runs the property's check, and always reverts /repo.
set -u
ID=$1; WT=$2; PROP=$3; shift 3; TIERS=${*:-quick}
export GOFLAGS=-mod=readonly GOPROXY=off GOSUMDB=off GOTOOLCHAIN=local
cd "$WT" || exit 2
PATCH="$WT/seeded.patch"
[ -s "$PATCH" ] || { echo "no seeded.patch"; exit 2; }
DEMO=$(git status --porcelain | grep '_test.go' | awk '{print $2}' | head -1)
PKG=./$(dirname "$DEMO")/
echo "== demo file $DEMO (package $PKG)"
echo "== with the change:"
timeout 600 go test -vet=off -count=1 -run 'TestKeeperTestSuite|Seeded|seeded|Demo' "$PKG" 2>&1 | tail -3
git apply -R "$PATCH" || { echo "cannot reverse patch in worktree"; exit 2; }
echo "== without the change:"
timeout 600 go test -vet=off -count=1 -run 'TestKeeperTestSuite|Seeded|seeded|Demo' "$PKG" 2>&1 | tail -3
git apply "$PATCH"
echo "== full suite with the change (excluding the demo):"
mv "$DEMO" "$DEMO.off"
timeout 900 go test -vet=off -count=1 ./... 2>&1 | grep -v "no test files" | grep -v "^ok" | tail -5
mv "$DEMO.off" "$DEMO"
echo "== applying to /repo"
cd /repo && git status --porcelain | grep -q . && { echo "/repo not clean"; exit 2; }
git apply "$PATCH" || { echo "patch does not apply to /repo"; exit 2; }
cd /verif
for T in $TIERS; do
  echo "== ./check $PROP $T"
  timeout 3000 ./check $PROP $T 2>&1 | grep -v "^built" | tail -12
  echo "   exit=$?"
done
git -C /repo checkout -- . && echo "== /repo reverted: $(git -C /repo status --porcelain | wc -l) changes left"
