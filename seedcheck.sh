#!/bin/bash
# usage: seedcheck.sh <worktree> <property> [tier...]
# Phase 2: applies the seed's patch to /repo, runs the property's check, always reverts /repo.
set -u
WT=$1; PROP=$2; shift 2; TIERS=${*:-quick}
PATCH="$WT/seeded.patch"; [ -s "$PATCH" ] || PATCH="$WT/patch.diff"
exec 9>/tmp/seedcheck.lock; flock 9
cd /repo && git status --porcelain | grep -q . && { echo "/repo not clean"; exit 2; }
git apply "$PATCH" || { echo "patch does not apply to /repo"; exit 2; }
cd /verif
for T in $TIERS; do
  echo "== ./check $PROP $T (VERIF_SEED=${VERIF_SEED:-1})"
  VERIF_NO_REGRESS=1 timeout 6000 ./check $PROP $T 2>&1 | grep -a -v "^built" | tail -${TAILN:-14}
done
git -C /repo checkout -- . && echo "== /repo reverted: $(git -C /repo status --porcelain | wc -l) changes left"
