package pure

import (
	"bytes"
	"context"
	"fmt"
	"math/big"
	"strings"
	"testing"

	"github.com/cosmos/cosmos-sdk/client"
	"pgregory.net/rapid"

	undcmd "github.com/unification-com/mainchain/cmd/und/cmd"
	undtypes "github.com/unification-com/mainchain/types"

	"verifharness/sim"
)

type c19Input struct {
	Amount string `json:"amount"` // decimal string, FUND (Dir fund2nund) or integer nund (Dir nund2fund)
	Dir    string `json:"dir"`
	// Plain: when Amount is another spelling of a decimal (leading '+', trailing point, bare fraction, exponent
	// notation), the same value as plain digits[.digits]; the exact results are computed from it.
	Plain string `json:"plain,omitempty"`
}

const rejectedSpelling = "REJECTED-SPELLING"

// spell writes the plain decimal (digits[.digits]) in another way that denotes the same value.
func spell(t *rapid.T, plain string) string {
	intPart, frac := plain, ""
	if i := strings.IndexByte(plain, '.'); i >= 0 {
		intPart, frac = plain[:i], plain[i+1:]
	}
	switch rapid.IntRange(0, 5).Draw(t, "spelling") {
	case 0:
		return "+" + plain
	case 1:
		if frac == "" {
			return plain + "."
		}
	case 2:
		if strings.Trim(intPart, "0") == "" && frac != "" {
			return "." + frac
		}
	}
	// exponent notation: the digits with the point somewhere else, and the power of ten that puts it back
	digits := intPart + frac
	f2 := rapid.IntRange(0, len(digits)).Draw(t, "pointAt") // fractional digits of the mantissa
	exp := f2 - len(frac)
	m := digits[:len(digits)-f2]
	if m == "" {
		m = "0"
	}
	if f2 > 0 {
		m += "." + digits[len(digits)-f2:]
	}
	e := rapid.SampledFrom([]string{"e", "E"}).Draw(t, "e")
	sign := ""
	if exp < 0 {
		sign, exp = "-", -exp
	} else if rapid.Bool().Draw(t, "plusExp") {
		sign = "+"
	}
	out := fmt.Sprintf("%s%s%s%d", m, e, sign, exp)
	if rapid.IntRange(0, 5).Draw(t, "plusMantissa") == 0 {
		out = "+" + out
	}
	return out
}

var e9 = new(big.Int).Exp(big.NewInt(10), big.NewInt(9), nil)

// exact FUND -> nund: value x 10^9 (amount has at most nine fractional digits)
func exactFundToNund(amount string) string {
	intPart, frac := amount, ""
	if i := strings.IndexByte(amount, '.'); i >= 0 {
		intPart, frac = amount[:i], amount[i+1:]
	}
	frac = frac + strings.Repeat("0", 9-len(frac))
	v, _ := new(big.Int).SetString(intPart+frac, 10)
	return v.String() + "nund"
}

// exact nund -> FUND: value / 10^9 printed with nine decimals
func exactNundToFund(amount string) string {
	v, _ := new(big.Int).SetString(amount, 10)
	q, r := new(big.Int).QuoRem(v, e9, new(big.Int))
	return fmt.Sprintf("%s.%09d", q.String(), r.Int64()) + "fund"
}

// convertViaCommand runs the node's `convert [amount] [from] [to]` command in-process and returns the
// result it prints ("<amount><from> = <result>\n").
func convertViaCommand(amount, from, to string) (string, error) {
	cmd := undcmd.GetDenomConversionCmd()
	var out bytes.Buffer
	cctx := client.Context{}.WithOutput(&out)
	cmd.SetOut(&out)
	cmd.SetErr(&out)
	cmd.SetArgs([]string{amount, from, to})
	cmd.SilenceUsage, cmd.SilenceErrors = true, true
	if err := cmd.ExecuteContext(context.WithValue(context.Background(), client.ClientContextKey, &cctx)); err != nil {
		return "", err
	}
	line := strings.TrimSuffix(out.String(), "\n")
	prefix := amount + from + " = "
	if !strings.HasPrefix(line, prefix) || strings.Contains(line, "\n") {
		return "", fmt.Errorf("unexpected output %q", out.String())
	}
	return strings.TrimPrefix(line, prefix), nil
}

// checkC19 checks the conversion function and, through it, what the command prints.
func checkC19(in c19Input) string {
	if msg := checkC19With(in, undtypes.ConvertUndDenomination, "ConvertUndDenomination"); msg != "" && msg != rejectedSpelling {
		return msg
	}
	return checkC19With(in, convertViaCommand, "`und convert`")
}

func checkC19With(in c19Input, convert func(amount, from, to string) (string, error), via string) string {
	plain := in.Amount
	if in.Plain != "" {
		plain = in.Plain
	}
	switch in.Dir {
	case "fund2nund":
		got, err := convert(in.Amount, "fund", "nund")
		if err != nil {
			if in.Plain != "" {
				return rejectedSpelling // the command does not take this spelling: nothing is yielded, nothing is claimed
			}
			return fmt.Sprintf("%s: convert %q fund->nund failed: %v", via, in.Amount, err)
		}
		want := exactFundToNund(plain)
		if got != want {
			return fmt.Sprintf("%s: convert %s fund -> %s, exact result is %s", via, in.Amount, got, want)
		}
		// there and back: the canonical nine-decimal form of the input
		back, err := convert(strings.TrimSuffix(got, "nund"), "nund", "fund")
		if err != nil {
			return fmt.Sprintf("convert back %q nund->fund failed: %v", got, err)
		}
		if wantBack := exactNundToFund(strings.TrimSuffix(want, "nund")); back != wantBack {
			return fmt.Sprintf("%s fund -> %s -> %s, expected %s", in.Amount, got, back, wantBack)
		}
	case "nund2fund":
		got, err := convert(in.Amount, "nund", "fund")
		if err != nil {
			if in.Plain != "" {
				return rejectedSpelling
			}
			return fmt.Sprintf("%s: convert %q nund->fund failed: %v", via, in.Amount, err)
		}
		if want := exactNundToFund(plain); got != want {
			return fmt.Sprintf("%s: convert %s nund -> %s, exact result is %s", via, in.Amount, got, want)
		}
		back, err := convert(strings.TrimSuffix(got, "fund"), "fund", "nund")
		if err != nil {
			return fmt.Sprintf("convert back %q fund->nund failed: %v", got, err)
		}
		v, _ := new(big.Int).SetString(plain, 10)
		if back != v.String()+"nund" {
			return fmt.Sprintf("%s nund -> %s -> %s: the round trip does not return the original amount", in.Amount, got, back)
		}
	}
	return ""
}

var digitSeeds = []string{"120000000", "1", "0", "999999999", "1000000000", "123456789", "999999999999999999", "1000000000000000000",
	"9007199254740993", "9007199254740992", "18446744073709551615", "120000000000000000", "99999999999999999999", "100000000000000000001"}

func genDigits(t *rapid.T, min, max int, label string) string {
	n := rapid.IntRange(min, max).Draw(t, label+"N")
	b := make([]byte, n)
	for i := range b {
		b[i] = byte('0' + rapid.IntRange(0, 9).Draw(t, label))
	}
	return string(b)
}

func TestC19(t *testing.T) {
	ev := sim.NewEvidence("C19", "decimal string with > 15 significant digits or a non-zero ninth fractional digit; distinct by input string",
		"inputs are non-negative decimals, integer part 1-21 digits, 0-9 fractional digits, nund inputs integer-valued; a quarter of them are written in another spelling of the same value (leading '+', trailing point, bare fraction, exponent notation with the point moved): a spelling the command refuses is counted and not judged; hex / inf / nan syntax is not generated")
	fk := &failKeeper{prop: "C19"}
	defer ev.Flush()
	rapid.Check(t, func(rt *rapid.T) {
		var in c19Input
		intPart := ""
		switch rapid.IntRange(0, 3).Draw(rt, "intKind") {
		case 0:
			intPart = rapid.SampledFrom(digitSeeds).Draw(rt, "seed")
		case 1:
			// a seed +/- small delta
			v, _ := new(big.Int).SetString(rapid.SampledFrom(digitSeeds).Draw(rt, "seed2"), 10)
			v.Add(v, big.NewInt(int64(rapid.IntRange(-3, 3).Draw(rt, "delta"))))
			if v.Sign() < 0 {
				v.SetInt64(0)
			}
			intPart = v.String()
		default:
			intPart = strings.TrimLeft(genDigits(rt, 1, 21, "int"), "0")
			if intPart == "" {
				intPart = "0"
			}
		}
		if rapid.IntRange(0, 9).Draw(rt, "leadingZeros") == 0 {
			intPart = "00" + intPart
		}
		if rapid.Bool().Draw(rt, "dirFund") {
			in.Dir = "fund2nund"
			in.Amount = intPart
			if nf := rapid.IntRange(0, 9).Draw(rt, "nFrac"); nf > 0 {
				in.Amount += "." + genDigits(rt, nf, nf, "frac")
			}
		} else {
			in.Dir = "nund2fund"
			in.Amount = intPart
		}
		plainAmt := in.Amount
		if rapid.IntRange(0, 3).Draw(rt, "respell") == 0 {
			// the same value written differently (what ParseFloat-style parsers take): sign, trailing point, bare fraction, exponent
			in.Plain = in.Amount
			in.Amount = spell(rt, in.Plain)
			ev.Count("c19.other-spelling", 1)
			if strings.ContainsAny(in.Amount, "eE") {
				ev.Count("c19.other-spelling.exponent", 1)
				if strings.Contains(in.Amount, ".") {
					ev.Count("c19.other-spelling.exponent-and-point", 1)
				}
			}
		}
		sig := strings.TrimLeft(strings.ReplaceAll(plainAmt, ".", ""), "0")
		ninth := false
		if i := strings.IndexByte(plainAmt, '.'); i >= 0 && len(plainAmt)-i-1 == 9 && plainAmt[len(plainAmt)-1] != '0' {
			ninth = true
		}
		nt := len(sig) > 15 || ninth
		ev.Eval(sim.HashJSON(in), nt)
		if len(sig) > 15 {
			ev.Count("c19.over-15-significant-digits", 1)
		}
		if ninth {
			ev.Count("c19.nonzero-ninth-fraction-digit", 1)
		}
		ev.Count("c19."+in.Dir, 1)
		ev.Sample(in, 6)
		msg := checkC19(in)
		if msg == rejectedSpelling {
			ev.Count("c19.other-spelling.refused-by-the-command", 1)
			return
		}
		if in.Plain != "" {
			ev.Count("c19.other-spelling.accepted", 1)
		}
		if msg != "" {
			fk.offer(in, msg)
			rt.Fatalf("C19 violated: %s", msg)
		}
	})
}

// FuzzC19 is the coverage-guided variant (thorough tier): the bytes pick digits.
func FuzzC19(f *testing.F) {
	for _, s := range []string{"120000000.123456789", "999999999999999999", "0.000000001", "1", "18446744073709551615.999999999"} {
		f.Add(s, true)
		f.Add(strings.ReplaceAll(s, ".", ""), false)
	}
	f.Fuzz(func(t *testing.T, s string, fund bool) {
		// keep only inputs inside the quantifier: digits with at most one point, 1-21 integer digits, <= 9 fraction digits
		intPart, frac := s, ""
		if i := strings.IndexByte(s, '.'); i >= 0 {
			intPart, frac = s[:i], s[i+1:]
		}
		if len(intPart) == 0 || len(intPart) > 21 || len(frac) > 9 || strings.Trim(intPart, "0123456789") != "" || strings.Trim(frac, "0123456789") != "" {
			t.Skip()
		}
		in := c19Input{Amount: s, Dir: "fund2nund"}
		if !fund {
			if frac != "" || strings.Contains(s, ".") {
				t.Skip()
			}
			in.Dir = "nund2fund"
		} else if strings.HasSuffix(s, ".") {
			t.Skip()
		}
		if msg := checkC19(in); msg != "" && msg != rejectedSpelling {
			t.Fatalf("C19 violated: %s", msg)
		}
	})
}
