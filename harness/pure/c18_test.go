package pure

import (
	"sort"
	"bytes"
	"runtime/debug"
	"strings"
	"encoding/hex"
	"fmt"
	"testing"
	"time"

	sdk "github.com/cosmos/cosmos-sdk/types"
	"github.com/cosmos/cosmos-sdk/types/query"
	"pgregory.net/rapid"

	beacontypes "github.com/unification-com/mainchain/x/beacon/types"
	enttypes "github.com/unification-com/mainchain/x/enterprise/types"
	streamtypes "github.com/unification-com/mainchain/x/stream/types"
	wrkchaintypes "github.com/unification-com/mainchain/x/wrkchain/types"

	"verifharness/lab"
	"verifharness/sim"
)

// c18Input is one pair of logical keys.
type c18Input struct {
	Kind string   `json:"kind"` // "ids" | "addrs" | "keeper" | "interference"
	// interference: A / B = height increments of the records of the first / second registration, P = [limit of the
	// first, limit of the second, interleaving pattern bits]
	P []uint64 `json:"p,omitempty"`
	A    []uint64 `json:"a,omitempty"` // (id, height) of the first key
	B    []uint64 `json:"b,omitempty"`
	X    []string `json:"x,omitempty"` // hex addresses (receiver, sender) of the first key
	Y    []string `json:"y,omitempty"`
}

func sign(x int) int {
	switch {
	case x < 0:
		return -1
	case x > 0:
		return 1
	}
	return 0
}

func cmpPair(a, b []uint64) int {
	for i := range a {
		if a[i] < b[i] {
			return -1
		}
		if a[i] > b[i] {
			return 1
		}
	}
	return 0
}

func unhex(s string) []byte { b, _ := hex.DecodeString(s); return b }

// checkIDs: fixed-width big-endian id/height keys are injective, order preserving and prefix-free across parents.
func checkIDs(a, b []uint64) string {
	type builder struct {
		name string
		f    func(id, h uint64) []byte
		two  bool
	}
	bs := []builder{
		{"enterprise.PurchaseOrderKey", func(id, _ uint64) []byte { return enttypes.PurchaseOrderKey(id) }, false},
		{"enterprise.RaisedQueueStoreKey", func(id, _ uint64) []byte { return enttypes.RaisedQueueStoreKey(id) }, false},
		{"enterprise.AcceptedQueueStoreKey", func(id, _ uint64) []byte { return enttypes.AcceptedQueueStoreKey(id) }, false},
		{"wrkchain.WrkChainKey", func(id, _ uint64) []byte { return wrkchaintypes.WrkChainKey(id) }, false},
		{"wrkchain.WrkChainStorageLimitKey", func(id, _ uint64) []byte { return wrkchaintypes.WrkChainStorageLimitKey(id) }, false},
		{"wrkchain.WrkChainBlockKey", func(id, h uint64) []byte { return wrkchaintypes.WrkChainBlockKey(id, h) }, true},
		{"beacon.BeaconKey", func(id, _ uint64) []byte { return beacontypes.BeaconKey(id) }, false},
		{"beacon.BeaconStorageLimitKey", func(id, _ uint64) []byte { return beacontypes.BeaconStorageLimitKey(id) }, false},
		{"beacon.BeaconTimestampKey", func(id, h uint64) []byte { return beacontypes.BeaconTimestampKey(id, h) }, true},
	}
	for _, bd := range bs {
		la, lb := a, b
		if !bd.two {
			la, lb = a[:1], b[:1]
		}
		ka, kb := bd.f(a[0], a[1]), bd.f(b[0], b[1])
		if sign(bytes.Compare(ka, kb)) != cmpPair(la, lb) {
			return fmt.Sprintf("%s: byte order of keys for %v and %v is %d, numeric order is %d (keys %x / %x)", bd.name, la, lb, bytes.Compare(ka, kb), cmpPair(la, lb), ka, kb)
		}
	}
	// prefix-freeness: the records of one registration are never inside the iteration range of another
	if a[0] != b[0] {
		if bytes.HasPrefix(wrkchaintypes.WrkChainBlockKey(b[0], b[1]), wrkchaintypes.WrkChainAllBlocksKey(a[0])) {
			return fmt.Sprintf("wrkchain: block (%d,%d) lies inside the block range of WRKChain %d", b[0], b[1], a[0])
		}
		if bytes.HasPrefix(beacontypes.BeaconTimestampKey(b[0], b[1]), beacontypes.BeaconAllTimestampsKey(a[0])) {
			return fmt.Sprintf("beacon: timestamp (%d,%d) lies inside the timestamp range of BEACON %d", b[0], b[1], a[0])
		}
	}
	// sections of one store never collide: metadata / records / limits / counters / params
	wk := [][]byte{wrkchaintypes.WrkChainKey(a[0]), wrkchaintypes.WrkChainBlockKey(a[0], a[1]), wrkchaintypes.WrkChainStorageLimitKey(a[0]), wrkchaintypes.HighestWrkChainIDKey, wrkchaintypes.ParamsKey,
		wrkchaintypes.WrkChainKey(b[0]), wrkchaintypes.WrkChainBlockKey(b[0], b[1]), wrkchaintypes.WrkChainStorageLimitKey(b[0])}
	bk := [][]byte{beacontypes.BeaconKey(a[0]), beacontypes.BeaconTimestampKey(a[0], a[1]), beacontypes.BeaconStorageLimitKey(a[0]), beacontypes.HighestBeaconIDKey, beacontypes.ParamsKey,
		beacontypes.BeaconKey(b[0]), beacontypes.BeaconTimestampKey(b[0], b[1]), beacontypes.BeaconStorageLimitKey(b[0])}
	ek := [][]byte{enttypes.PurchaseOrderKey(a[0]), enttypes.RaisedQueueStoreKey(a[0]), enttypes.AcceptedQueueStoreKey(a[0]), enttypes.HighestPurchaseOrderIDKey, enttypes.ParamsKey, enttypes.TotalLockedUndKey, enttypes.TotalSpentEFUNDKey,
		enttypes.PurchaseOrderKey(b[0]), enttypes.RaisedQueueStoreKey(b[0]), enttypes.AcceptedQueueStoreKey(b[0])}
	// each set: the first nA keys are a's keys of nA different sections; the rest are b's keys of the first sections, in the same order
	for _, x := range []struct {
		set [][]byte
		nA  int
	}{{wk, 5}, {bk, 5}, {ek, 7}} {
		for i := 0; i < x.nA; i++ {
			for j := i + 1; j < len(x.set); j++ {
				if j >= x.nA && j-x.nA == i {
					continue // same section, other id: covered by the order check
				}
				if bytes.Equal(x.set[i], x.set[j]) {
					return fmt.Sprintf("two different store sections share the key %x", x.set[i])
				}
			}
		}
	}
	return ""
}

// checkAddrs: address-keyed sections and the length-prefixed stream key.
func checkAddrs(x, y [][]byte) string {
	r1, s1, r2, s2 := sdk.AccAddress(x[0]), sdk.AccAddress(x[1]), sdk.AccAddress(y[0]), sdk.AccAddress(y[1])
	k1, k2 := streamtypes.GetStreamKey(r1, s1), streamtypes.GetStreamKey(r2, s2)
	same := bytes.Equal(r1, r2) && bytes.Equal(s1, s2)
	if bytes.Equal(k1, k2) != same {
		return fmt.Sprintf("stream keys of (%x,%x) and (%x,%x) collide: %x", r1, s1, r2, s2, k1)
	}
	pr, ps := streamtypes.AddressesFromStreamKey(k1)
	if !bytes.Equal(pr, r1) || !bytes.Equal(ps, s1) {
		return fmt.Sprintf("stream key round trip: (%x,%x) parsed back as (%x,%x)", r1, s1, pr, ps)
	}
	// what the receiver listing sees: the key with the receiver prefix stripped starts with the length-prefixed sender
	pre := streamtypes.GetStreamsByReceiverKey(r1)
	if !bytes.HasPrefix(k1, pre) {
		return fmt.Sprintf("stream key of (%x,%x) does not start with its receiver prefix", r1, s1)
	}
	if got := streamtypes.FirstAddressFromStreamStoreKey(k1[len(pre):]); !bytes.Equal(got, s1) {
		return fmt.Sprintf("sender parsed from the receiver listing key is %x, created with %x", got, s1)
	}
	// a stream of another receiver is never inside this receiver's iteration range
	if !bytes.Equal(r1, r2) && bytes.HasPrefix(k2, pre) {
		return fmt.Sprintf("stream (%x,%x) lies inside the listing range of receiver %x", r2, s2, r1)
	}
	for _, kb := range []struct {
		name string
		f    func(sdk.AccAddress) []byte
	}{
		{"enterprise.LockedUndAddressStoreKey", enttypes.LockedUndAddressStoreKey},
		{"enterprise.SpentEFUNDAddressStoreKey", enttypes.SpentEFUNDAddressStoreKey},
		{"enterprise.WhitelistAddressStoreKey", enttypes.WhitelistAddressStoreKey},
	} {
		if bytes.Equal(kb.f(r1), kb.f(r2)) != bytes.Equal(r1, r2) {
			return fmt.Sprintf("%s: addresses %x and %x share a key", kb.name, r1, r2)
		}
	}
	return ""
}

func checkC18(in c18Input) string {
	switch in.Kind {
	case "ids":
		return checkIDs(in.A, in.B)
	case "addrs":
		return checkAddrs([][]byte{unhex(in.X[0]), unhex(in.X[1])}, [][]byte{unhex(in.Y[0]), unhex(in.Y[1])})
	case "keeper":
		return checkKeeper(in)
	case "interference":
		return checkInterference(in)
	}
	return ""
}

// checkInterference: non-interference between registrations under the keepers' own operations. Two WRKChains and two
// BEACONs are registered (the second with the higher identifier); the same records are written for the first one in two
// branches of the state that differ only in whether the second one is given records (and a different limit) in
// between. Everything that can be read for the first one must be identical in both branches.
func checkInterference(in c18Input) (msg string) {
	c := keeperChain
	if c == nil {
		var err error
		c, err = lab.New(defaultCfg(), lab.NodeOpts{DB: "mem"})
		if err != nil {
			return "cannot build chain: " + err.Error()
		}
		defer c.Close()
		c.BeginBlock(time.Second)
	}
	defer func() {
		if r := recover(); r != nil {
			msg = fmt.Sprintf("keeper panicked: %v\n%s", r, shortStack())
		}
	}()
	if len(in.P) < 3 {
		return ""
	}
	base, _ := c.Ctx().CacheContext()
	app := c.App
	owner := c.Accts[1].Addr
	var wid, bid [2]uint64
	for i := 0; i < 2; i++ {
		var err error
		if wid[i], err = app.WrkchainKeeper.RegisterNewWrkChain(base, fmt.Sprintf("w%d", i), "n", "g", "t", owner); err != nil {
			return "RegisterNewWrkChain failed: " + err.Error()
		}
		if bid[i], err = app.BeaconKeeper.RegisterNewBeacon(base, beacontypes.Beacon{Moniker: fmt.Sprintf("b%d", i), Name: "n", Owner: owner.String()}); err != nil {
			return "RegisterNewBeacon failed: " + err.Error()
		}
		lim := in.P[i]%4 + 1
		_ = app.WrkchainKeeper.SetWrkChainStorageLimit(base, wid[i], lim)
		_ = app.BeaconKeeper.SetBeaconStorageLimit(base, bid[i], lim)
	}
	type view struct{ reg, blocks, limit string }
	run := func(withSecond bool) (wv, bv view) {
		ctx, _ := base.CacheContext()
		ha, hb := uint64(0), uint64(0)
		j := 0
		for i, d := range in.A {
			if withSecond && in.P[2]>>(uint(i)%60)&1 == 1 && j < len(in.B) {
				hb += in.B[j]%5 + 1
				j++
				_, _ = app.WrkchainKeeper.RecordNewWrkchainHashes(ctx, wid[1], hb, "hb", "p", "1", "2", "3")
				_, _, _ = app.BeaconKeeper.RecordNewBeaconTimestamp(ctx, bid[1], "hb", 7)
			}
			ha += d%5 + 1
			_, _ = app.WrkchainKeeper.RecordNewWrkchainHashes(ctx, wid[0], ha, fmt.Sprintf("ha%d", i), "", "1", "", "3")
			_, _, _ = app.BeaconKeeper.RecordNewBeaconTimestamp(ctx, bid[0], fmt.Sprintf("ha%d", i), 9)
		}
		w, _ := app.WrkchainKeeper.GetWrkChain(ctx, wid[0])
		wl, _ := app.WrkchainKeeper.GetWrkChainStorageLimit(ctx, wid[0])
		wv = view{w.String(), fmt.Sprint(app.WrkchainKeeper.GetAllWrkChainBlockHashes(ctx, wid[0])), wl.String()}
		b, _ := app.BeaconKeeper.GetBeacon(ctx, bid[0])
		bl, _ := app.BeaconKeeper.GetBeaconStorageLimit(ctx, bid[0])
		bv = view{b.String(), fmt.Sprint(app.BeaconKeeper.GetAllBeaconTimestamps(ctx, bid[0])), bl.String()}
		return
	}
	w1, b1 := run(false)
	w2, b2 := run(true)
	if w1 != w2 {
		return fmt.Sprintf("what is read for WRKChain %d depends on whether WRKChain %d was given records: alone %+v, next to it %+v", wid[0], wid[1], w1, w2)
	}
	if b1 != b2 {
		return fmt.Sprintf("what is read for BEACON %d depends on whether BEACON %d was given records: alone %+v, next to it %+v", bid[0], bid[1], b1, b2)
	}
	return ""
}

var idBounds = []uint64{0, 1, 2, 255, 256, 257, 65535, 65536, 1<<32 - 1, 1 << 32, 1<<56 - 1, 1 << 56, 1<<63 - 1, 1 << 63, ^uint64(0) - 1, ^uint64(0)}

func genID(t *rapid.T, label string) uint64 {
	switch rapid.IntRange(0, 3).Draw(t, label+"K") {
	case 0:
		return rapid.SampledFrom(idBounds).Draw(t, label)
	case 1:
		return rapid.Uint64().Draw(t, label)
	case 2:
		// a byte-shifted neighbour: differs in exactly one byte position
		return uint64(rapid.IntRange(1, 255).Draw(t, label)) << (8 * uint(rapid.IntRange(0, 7).Draw(t, label+"S")))
	default:
		return uint64(rapid.IntRange(0, 300).Draw(t, label))
	}
}

var addrLens = []int{1, 1, 2, 19, 20, 20, 20, 21, 32, 32, 254, 255}

func genAddr(t *rapid.T, label string) []byte {
	n := rapid.SampledFrom(addrLens).Draw(t, label+"Len")
	if rapid.IntRange(0, 4).Draw(t, label+"AnyLen") == 0 {
		n = rapid.IntRange(1, 255).Draw(t, label+"LenLit")
	}
	fill := byte(rapid.SampledFrom([]int{0, 1, 20, 32, 255, 0x11}).Draw(t, label+"Fill"))
	b := bytes.Repeat([]byte{fill}, n)
	if rapid.Bool().Draw(t, label+"Rand") {
		b = rapid.SliceOfN(rapid.Byte(), n, n).Draw(t, label)
	}
	return b
}

// a related address: prefix / extension / differs in the length only / differs in the last byte
func related(t *rapid.T, a []byte, label string) []byte {
	switch rapid.IntRange(0, 6).Draw(t, label+"Rel") {
	case 5:
		// b ends with the length-prefixed form of a: x || len(a) || a (keys are only prefix-free read from the left)
		if len(a) < 200 {
			x := rapid.SliceOfN(rapid.Byte(), 1, 11).Draw(t, label+"Pre")
			return append(append(append([]byte{}, x...), byte(len(a))), a...)
		}
	case 6:
		// b starts with a followed by something that looks like another length-prefixed address
		if len(a) < 200 {
			x := rapid.SliceOfN(rapid.Byte(), 1, 11).Draw(t, label+"Suf")
			return append(append(append([]byte{}, a...), byte(len(x))), x...)
		}
	case 0:
		if len(a) > 1 {
			return append([]byte{}, a[:len(a)-1]...)
		}
	case 1:
		if len(a) < 255 {
			return append(append([]byte{}, a...), byte(rapid.IntRange(0, 255).Draw(t, label+"Ext")))
		}
	case 2:
		b := append([]byte{}, a...)
		b[len(b)-1] ^= 1
		return b
	case 3:
		// the first byte of a is the length prefix of b: [len(b)] ++ b == prefix games
		if len(a) > 2 {
			return append([]byte{}, a[1:]...)
		}
	}
	return genAddr(t, label)
}

var keeperChain *lab.Chain

func TestC18(t *testing.T) {
	ev := sim.NewEvidence("C18", "pair of logical keys that differ in length, share a prefix, or contain a boundary value (0, 2^8k, 2^64-1; address lengths 1/19/20/21/32/255); distinct by pair",
		"keeper-level cases run on a cache-wrapped context of one lab chain and are discarded after each case")
	fk := &failKeeper{prop: "C18"}
	defer ev.Flush()
	var err error
	keeperChain, err = lab.New(defaultCfg(), lab.NodeOpts{DB: "mem"})
	if err != nil {
		t.Fatal(err)
	}
	defer keeperChain.Close()
	keeperChain.BeginBlock(time.Second)
	n := 0
	rapid.Check(t, func(rt *rapid.T) {
		n++
		var in c18Input
		switch k := rapid.IntRange(0, 9).Draw(rt, "kind"); {
		case k < 4:
			in.Kind = "ids"
			in.A = []uint64{genID(rt, "a0"), genID(rt, "a1")}
			in.B = []uint64{genID(rt, "b0"), genID(rt, "b1")}
			if rapid.IntRange(0, 2).Draw(rt, "sameParent") == 0 {
				in.B[0] = in.A[0]
			}
		case k < 8:
			in.Kind = "addrs"
			r1, s1 := genAddr(rt, "r1"), genAddr(rt, "s1")
			r2, s2 := related(rt, r1, "r2"), related(rt, s1, "s2")
			if rapid.IntRange(0, 3).Draw(rt, "swap") == 0 {
				r2, s2 = s1, r1
			}
			in.X = []string{hex.EncodeToString(r1), hex.EncodeToString(s1)}
			in.Y = []string{hex.EncodeToString(r2), hex.EncodeToString(s2)}
		case k == 8 && n%2 == 0:
			in.Kind = "interference"
			in.A = rapid.SliceOfN(rapid.Uint64Range(0, 9), 1, 8).Draw(rt, "recsA")
			in.B = rapid.SliceOfN(rapid.Uint64Range(0, 9), 1, 8).Draw(rt, "recsB")
			in.P = []uint64{rapid.Uint64Range(0, 3).Draw(rt, "limA"), rapid.Uint64Range(0, 3).Draw(rt, "limB"), rapid.Uint64().Draw(rt, "pattern")}
		default:
			in.Kind = "keeper"
			in.A = []uint64{genID(rt, "a0"), genID(rt, "a1")}
			in.B = []uint64{genID(rt, "b0"), genID(rt, "b1")}
			r1, s1 := genAddr(rt, "r1"), genAddr(rt, "s1")
			r2, s2 := related(rt, r1, "r2"), related(rt, s1, "s2")
			in.X = []string{hex.EncodeToString(r1), hex.EncodeToString(s1)}
			in.Y = []string{hex.EncodeToString(r2), hex.EncodeToString(s2)}
		}
		nt := false
		if in.Kind != "addrs" {
			for _, v := range append(append([]uint64{}, in.A...), in.B...) {
				for _, bnd := range idBounds {
					if v == bnd {
						nt = true
					}
				}
			}
		}
		if in.Kind != "ids" {
			for i := range in.X {
				if len(in.X[i]) != len(in.Y[i]) || len(in.X[i]) != 40 {
					nt = true
				}
			}
		}
		ev.Eval(sim.HashJSON(in), nt)
		ev.Count("c18."+in.Kind, 1)
		ev.Sample(in, 6)
		if msg := checkC18(in); msg != "" {
			fk.offer(in, msg)
			rt.Fatalf("C18 violated: %s", msg)
		}
	})
}

func defaultCfg() lab.GenesisCfg {
	accts := make([]lab.AcctCfg, 4)
	for i := range accts {
		accts[i] = lab.AcctCfg{Kind: lab.KindBase, Bal: map[string]string{"nund": "1000000000000000", "stake": "1000000000"}}
	}
	return lab.GenesisCfg{
		Accounts:  accts,
		Ent:       lab.EntCfg{Signers: []int{1}, MinAccepts: 1, TimeLimit: 100, Denom: "nund", Whitelist: []int{2}, StartID: 1},
		Wrk:       lab.RegCfg{FeeReg: 1000, FeeRec: 10, FeePur: 5, Denom: "nund", DefLimit: 2, MaxLimit: 6, StartID: 1},
		Bcn:       lab.RegCfg{FeeReg: 1000, FeeRec: 10, FeePur: 5, Denom: "nund", DefLimit: 2, MaxLimit: 6, StartID: 1},
		StreamFee: "0.01",
		MaxGas:    -1,
	}
}

// checkKeeper: write A and B, overwrite / delete A => every read of B unchanged; listings ascend;
// a listed stream carries exactly the addresses it was created with.
func checkKeeper(in c18Input) (msg string) {
	c := keeperChain
	if c == nil {
		var err error
		c, err = lab.New(defaultCfg(), lab.NodeOpts{DB: "mem"})
		if err != nil {
			return "cannot build chain: " + err.Error()
		}
		defer c.Close()
		c.BeginBlock(time.Second)
	}
	defer func() {
		if r := recover(); r != nil {
			msg = fmt.Sprintf("keeper panicked: %v\n%s", r, shortStack())
		}
	}()
	ctx, _ := c.Ctx().CacheContext()
	app := c.App
	a, b := in.A, in.B
	r1, s1, r2, s2 := sdk.AccAddress(unhex(in.X[0])), sdk.AccAddress(unhex(in.X[1])), sdk.AccAddress(unhex(in.Y[0])), sdk.AccAddress(unhex(in.Y[1]))
	coin := func(n int64) sdk.Coin { return sdk.NewInt64Coin("nund", n) }

	baseWL := app.EnterpriseKeeper.GetAllWhitelistedAddresses(ctx)
	// --- enterprise: purchase orders
	if a[0] != b[0] {
		poA := enttypes.EnterpriseUndPurchaseOrder{Id: a[0], Purchaser: r1.String(), Amount: coin(11), Status: enttypes.StatusRaised}
		poB := enttypes.EnterpriseUndPurchaseOrder{Id: b[0], Purchaser: r2.String(), Amount: coin(22), Status: enttypes.StatusAccepted}
		app.EnterpriseKeeper.SetPurchaseOrder(ctx, poA)
		app.EnterpriseKeeper.SetPurchaseOrder(ctx, poB)
		app.EnterpriseKeeper.AddPoToRaisedQueue(ctx, a[0])
		app.EnterpriseKeeper.AddPoToAcceptedQueue(ctx, b[0])
		poA.Amount = coin(99)
		app.EnterpriseKeeper.SetPurchaseOrder(ctx, poA)
		app.EnterpriseKeeper.RemovePurchaseOrderFromRaisedQueue(ctx, a[0])
		got, ok := app.EnterpriseKeeper.GetPurchaseOrder(ctx, b[0])
		if !ok || !got.Amount.IsEqual(coin(22)) || got.Purchaser != r2.String() {
			return fmt.Sprintf("purchase order %d changed after writing order %d: %v", b[0], a[0], got)
		}
		if !app.EnterpriseKeeper.PurchaseOrderIsInAcceptedQueue(ctx, b[0]) || (app.EnterpriseKeeper.PurchaseOrderIsInRaisedQueue(ctx, b[0])) {
			return fmt.Sprintf("queues of order %d affected by order %d", b[0], a[0])
		}
		all := app.EnterpriseKeeper.GetAllPurchaseOrders(ctx)
		for i := 1; i < len(all); i++ {
			if all[i-1].Id >= all[i].Id {
				return fmt.Sprintf("purchase orders are not listed in ascending id order: %d before %d", all[i-1].Id, all[i].Id)
			}
		}
		if len(all) != 2 {
			return fmt.Sprintf("listing returns %d purchase orders, 2 were written", len(all))
		}
	}
	// --- enterprise: locked / spent / whitelist by address
	if !bytes.Equal(r1, r2) {
		app.EnterpriseKeeper.SetLockedUndForAccount(ctx, enttypes.LockedUnd{Owner: r1.String(), Amount: coin(5)})
		app.EnterpriseKeeper.SetLockedUndForAccount(ctx, enttypes.LockedUnd{Owner: r2.String(), Amount: coin(7)})
		app.EnterpriseKeeper.SetSpentEFUNDForAccount(ctx, enttypes.SpentEFUND{Owner: r1.String(), Amount: coin(1)})
		app.EnterpriseKeeper.SetSpentEFUNDForAccount(ctx, enttypes.SpentEFUND{Owner: r2.String(), Amount: coin(2)})
		app.EnterpriseKeeper.AddAddressToWhitelist(ctx, r1)
		app.EnterpriseKeeper.AddAddressToWhitelist(ctx, r2)
		app.EnterpriseKeeper.SetLockedUndForAccount(ctx, enttypes.LockedUnd{Owner: r1.String(), Amount: coin(500)})
		app.EnterpriseKeeper.SetSpentEFUNDForAccount(ctx, enttypes.SpentEFUND{Owner: r1.String(), Amount: coin(100)})
		app.EnterpriseKeeper.RemoveAddressFromWhitelist(ctx, r1)
		if l := app.EnterpriseKeeper.GetLockedUndForAccount(ctx, r2); !l.Amount.IsEqual(coin(7)) {
			return fmt.Sprintf("locked eFUND of %x changed to %s after writing %x", r2, l.Amount, r1)
		}
		if s := app.EnterpriseKeeper.GetSpentEFUNDForAccount(ctx, r2); !s.Amount.IsEqual(coin(2)) {
			return fmt.Sprintf("spent eFUND of %x changed to %s after writing %x", r2, s.Amount, r1)
		}
		if !app.EnterpriseKeeper.AddressIsWhitelisted(ctx, r2) || app.EnterpriseKeeper.AddressIsWhitelisted(ctx, r1) {
			return fmt.Sprintf("whitelist entry of %x affected by removing %x", r2, r1)
		}
	}
	// --- wrkchain / beacon registrations, records, limits
	if a[0] != b[0] {
		app.WrkchainKeeper.SetWrkChain(ctx, wrkchaintypes.WrkChain{WrkchainId: a[0], Moniker: "A", Owner: r1.String()})
		app.WrkchainKeeper.SetWrkChain(ctx, wrkchaintypes.WrkChain{WrkchainId: b[0], Moniker: "B", Owner: r2.String()})
		app.WrkchainKeeper.SetWrkChainStorageLimit(ctx, a[0], 3)
		app.WrkchainKeeper.SetWrkChainStorageLimit(ctx, b[0], 4)
		app.WrkchainKeeper.SetWrkChain(ctx, wrkchaintypes.WrkChain{WrkchainId: a[0], Moniker: "A2", Owner: s1.String()})
		app.WrkchainKeeper.SetWrkChainStorageLimit(ctx, a[0], 30)
		if w, ok := app.WrkchainKeeper.GetWrkChain(ctx, b[0]); !ok || w.Moniker != "B" || w.Owner != r2.String() {
			return fmt.Sprintf("WRKChain %d changed after writing WRKChain %d: %v", b[0], a[0], w)
		}
		if l, _ := app.WrkchainKeeper.GetWrkChainStorageLimit(ctx, b[0]); l.InStateLimit != 4 {
			return fmt.Sprintf("storage limit of WRKChain %d changed to %d after writing %d", b[0], l.InStateLimit, a[0])
		}
		ws := app.WrkchainKeeper.GetAllWrkChains(ctx)
		for i := 1; i < len(ws); i++ {
			if ws[i-1].WrkchainId >= ws[i].WrkchainId {
				return "WRKChains are not listed in ascending id order"
			}
		}
		app.BeaconKeeper.SetBeacon(ctx, beacontypes.Beacon{BeaconId: a[0], Moniker: "A", Owner: r1.String()})
		app.BeaconKeeper.SetBeacon(ctx, beacontypes.Beacon{BeaconId: b[0], Moniker: "B", Owner: r2.String()})
		app.BeaconKeeper.SetBeaconStorageLimit(ctx, a[0], 3)
		app.BeaconKeeper.SetBeaconStorageLimit(ctx, b[0], 4)
		app.BeaconKeeper.SetBeacon(ctx, beacontypes.Beacon{BeaconId: a[0], Moniker: "A2", Owner: s1.String()})
		app.BeaconKeeper.SetBeaconStorageLimit(ctx, a[0], 30)
		if w, ok := app.BeaconKeeper.GetBeacon(ctx, b[0]); !ok || w.Moniker != "B" || w.Owner != r2.String() {
			return fmt.Sprintf("BEACON %d changed after writing BEACON %d: %v", b[0], a[0], w)
		}
		if l, _ := app.BeaconKeeper.GetBeaconStorageLimit(ctx, b[0]); l.InStateLimit != 4 {
			return fmt.Sprintf("storage limit of BEACON %d changed to %d after writing %d", b[0], l.InStateLimit, a[0])
		}
	}
	if a[0] != b[0] || a[1] != b[1] {
		app.WrkchainKeeper.SetWrkChainBlock(ctx, a[0], wrkchaintypes.WrkChainBlock{Height: a[1], Blockhash: "A"})
		app.WrkchainKeeper.SetWrkChainBlock(ctx, b[0], wrkchaintypes.WrkChainBlock{Height: b[1], Blockhash: "B"})
		app.WrkchainKeeper.SetWrkChainBlock(ctx, a[0], wrkchaintypes.WrkChainBlock{Height: a[1], Blockhash: "A2"})
		if blk, ok := app.WrkchainKeeper.GetWrkChainBlock(ctx, b[0], b[1]); !ok || blk.Blockhash != "B" || blk.Height != b[1] {
			return fmt.Sprintf("WRKChain record (%d,%d) changed after writing (%d,%d): %v", b[0], b[1], a[0], a[1], blk)
		}
		blocks := app.WrkchainKeeper.GetAllWrkChainBlockHashes(ctx, b[0])
		want := 1
		if a[0] == b[0] {
			want = 2
		}
		if len(blocks) != want {
			return fmt.Sprintf("listing the records of WRKChain %d returns %d records, %d were written for it", b[0], len(blocks), want)
		}
		for i := 1; i < len(blocks); i++ {
			if blocks[i-1].Height >= blocks[i].Height {
				return "WRKChain records are not listed in ascending height order"
			}
		}
		app.BeaconKeeper.SetBeaconTimestamp(ctx, a[0], beacontypes.BeaconTimestamp{TimestampId: a[1], Hash: "A"})
		app.BeaconKeeper.SetBeaconTimestamp(ctx, b[0], beacontypes.BeaconTimestamp{TimestampId: b[1], Hash: "B"})
		app.BeaconKeeper.SetBeaconTimestamp(ctx, a[0], beacontypes.BeaconTimestamp{TimestampId: a[1], Hash: "A2"})
		if ts, ok := app.BeaconKeeper.GetBeaconTimestampByID(ctx, b[0], b[1]); !ok || ts.Hash != "B" {
			return fmt.Sprintf("BEACON timestamp (%d,%d) changed after writing (%d,%d)", b[0], b[1], a[0], a[1])
		}
		tss := app.BeaconKeeper.GetAllBeaconTimestamps(ctx, b[0])
		if len(tss) != want {
			return fmt.Sprintf("listing the timestamps of BEACON %d returns %d, %d were written for it", b[0], len(tss), want)
		}
		// every other listing of the records of registration b[0] (forward, reverse, export), with the registration's
		// counters describing exactly what was written
		keys := []uint64{b[1]}
		if a[0] == b[0] && a[1] != b[1] {
			keys = append(keys, a[1])
		}
		sort.Slice(keys, func(i, j int) bool { return keys[i] < keys[j] })
		lo, hi := keys[0], keys[len(keys)-1]
		app.WrkchainKeeper.SetWrkChain(ctx, wrkchaintypes.WrkChain{WrkchainId: b[0], Moniker: "B", Owner: r2.String(), Lastblock: hi, LowestHeight: lo, NumBlocks: uint64(len(keys))})
		app.BeaconKeeper.SetBeacon(ctx, beacontypes.Beacon{BeaconId: b[0], Moniker: "B", Owner: r2.String(), LastTimestampId: hi, FirstIdInState: lo, NumInState: uint64(len(keys))})
		same := func(got []uint64, wantKeys []uint64) bool {
			if len(got) != len(wantKeys) {
				return false
			}
			for i := range got {
				if got[i] != wantKeys[i] {
					return false
				}
			}
			return true
		}
		rev := make([]uint64, len(keys))
		for i := range keys {
			rev[len(keys)-1-i] = keys[i]
		}
		var fw, bw, ex []uint64
		app.WrkchainKeeper.IterateWrkChainBlockHashes(ctx, b[0], func(x wrkchaintypes.WrkChainBlock) bool { fw = append(fw, x.Height); return false })
		app.WrkchainKeeper.IterateWrkChainBlockHashesReverse(ctx, b[0], func(x wrkchaintypes.WrkChainBlock) bool { bw = append(bw, x.Height); return false })
		for _, x := range app.WrkchainKeeper.GetAllWrkChainBlockHashesForGenesisExport(ctx, b[0]) {
			ex = append(ex, x.He)
		}
		if !same(fw, keys) || !same(bw, rev) || !same(ex, keys) {
			return fmt.Sprintf("records of WRKChain %d were written at heights %v; forward iteration lists %v, reverse iteration %v, the genesis export %v", b[0], keys, fw, bw, ex)
		}
		fw, bw, ex = nil, nil, nil
		app.BeaconKeeper.IterateBeaconTimestamps(ctx, b[0], func(x beacontypes.BeaconTimestamp) bool { fw = append(fw, x.TimestampId); return false })
		app.BeaconKeeper.IterateBeaconTimestampsReverse(ctx, b[0], func(x beacontypes.BeaconTimestamp) bool { bw = append(bw, x.TimestampId); return false })
		for _, x := range app.BeaconKeeper.GetAllBeaconTimestampsForExport(ctx, b[0]) {
			ex = append(ex, x.Id)
		}
		if !same(fw, keys) || !same(bw, rev) || !same(ex, keys) {
			return fmt.Sprintf("timestamps of BEACON %d were written with ids %v; forward iteration lists %v, reverse iteration %v, the genesis export %v", b[0], keys, fw, bw, ex)
		}
	}
	// --- the modules' list queries report every entity exactly as a point read does (no value of one entity leaks
	// into what is listed for another), in ascending identifier order
	if a[0] != b[0] {
		// one registration with every field set, one with the optional fields and counters left at their zero values
		app.WrkchainKeeper.SetWrkChain(ctx, wrkchaintypes.WrkChain{WrkchainId: a[0], Moniker: "A2", Name: "name-a", Genesis: "gen-a", Type: "type-a", Owner: s1.String(), Lastblock: 77, NumBlocks: 3, LowestHeight: 5, RegTime: 9})
		app.BeaconKeeper.SetBeacon(ctx, beacontypes.Beacon{BeaconId: a[0], Moniker: "A2", Name: "name-a", Owner: s1.String(), LastTimestampId: 77, NumInState: 3, FirstIdInState: 5, RegTime: 9})
		app.WrkchainKeeper.SetWrkChain(ctx, wrkchaintypes.WrkChain{WrkchainId: b[0], Moniker: "B", Owner: r2.String()})
		app.BeaconKeeper.SetBeacon(ctx, beacontypes.Beacon{BeaconId: b[0], Moniker: "B", Owner: r2.String()})
		wl, err := app.WrkchainKeeper.WrkChainsFiltered(sdk.WrapSDKContext(ctx), &wrkchaintypes.QueryWrkChainsFilteredRequest{Pagination: &query.PageRequest{Limit: 10}})
		if err != nil {
			return "WrkChainsFiltered failed: " + err.Error()
		}
		if len(wl.Wrkchains) != 2 {
			return fmt.Sprintf("WrkChainsFiltered lists %d WRKChains, 2 were written", len(wl.Wrkchains))
		}
		for i, x := range wl.Wrkchains {
			pt, _ := app.WrkchainKeeper.GetWrkChain(ctx, x.WrkchainId)
			if x.String() != pt.String() {
				return fmt.Sprintf("WrkChainsFiltered lists WRKChain %d as %v, the point read gives %v", x.WrkchainId, x, pt)
			}
			if i > 0 && wl.Wrkchains[i-1].WrkchainId >= x.WrkchainId {
				return "WrkChainsFiltered is not in ascending identifier order"
			}
		}
		bl, err := app.BeaconKeeper.BeaconsFiltered(sdk.WrapSDKContext(ctx), &beacontypes.QueryBeaconsFilteredRequest{Pagination: &query.PageRequest{Limit: 10}})
		if err != nil {
			return "BeaconsFiltered failed: " + err.Error()
		}
		if len(bl.Beacons) != 2 {
			return fmt.Sprintf("BeaconsFiltered lists %d BEACONs, 2 were written", len(bl.Beacons))
		}
		for i, x := range bl.Beacons {
			pt, _ := app.BeaconKeeper.GetBeacon(ctx, x.BeaconId)
			if x.String() != pt.String() {
				return fmt.Sprintf("BeaconsFiltered lists BEACON %d as %v, the point read gives %v", x.BeaconId, x, pt)
			}
			if i > 0 && bl.Beacons[i-1].BeaconId >= x.BeaconId {
				return "BeaconsFiltered is not in ascending identifier order"
			}
		}
		pl, err := app.EnterpriseKeeper.EnterpriseUndPurchaseOrders(sdk.WrapSDKContext(ctx), &enttypes.QueryEnterpriseUndPurchaseOrdersRequest{Pagination: &query.PageRequest{Limit: 10}})
		if err != nil {
			return "EnterpriseUndPurchaseOrders failed: " + err.Error()
		}
		if len(pl.PurchaseOrders) != 2 {
			return fmt.Sprintf("EnterpriseUndPurchaseOrders lists %d orders, 2 were written", len(pl.PurchaseOrders))
		}
		for i, x := range pl.PurchaseOrders {
			pt, _ := app.EnterpriseKeeper.GetPurchaseOrder(ctx, x.Id)
			if x.String() != pt.String() {
				return fmt.Sprintf("EnterpriseUndPurchaseOrders lists order %d as %v, the point read gives %v", x.Id, x, pt)
			}
			if i > 0 && pl.PurchaseOrders[i-1].Id >= x.Id {
				return "EnterpriseUndPurchaseOrders is not in ascending identifier order"
			}
		}
	}
	// --- enterprise: every other listing (queues, locked, spent, whitelist) is complete and ascending
	if a[0] != b[0] && !bytes.Equal(r1, r2) {
		wantQ := func(name string, got []uint64, want ...uint64) string {
			sort.Slice(want, func(i, j int) bool { return want[i] < want[j] })
			if len(got) != len(want) {
				return fmt.Sprintf("%s lists %v, expected %v", name, got, want)
			}
			for i := range got {
				if got[i] != want[i] {
					return fmt.Sprintf("%s lists %v, expected %v (ascending)", name, got, want)
				}
			}
			return ""
		}
		app.EnterpriseKeeper.AddPoToRaisedQueue(ctx, a[0])
		app.EnterpriseKeeper.AddPoToRaisedQueue(ctx, b[0])
		if m := wantQ("the raised queue", app.EnterpriseKeeper.GetAllRaisedPurchaseOrders(ctx), a[0], b[0]); m != "" {
			return m
		}
		app.EnterpriseKeeper.AddPoToAcceptedQueue(ctx, a[0])
		if m := wantQ("the accepted queue", app.EnterpriseKeeper.GetAllAcceptedPurchaseOrders(ctx), a[0], b[0]); m != "" {
			return m
		}
		app.EnterpriseKeeper.RemovePurchaseOrderFromAcceptedQueue(ctx, a[0])
		app.EnterpriseKeeper.RemovePurchaseOrderFromRaisedQueue(ctx, a[0])
		if m := wantQ("the accepted queue after removing the other order", app.EnterpriseKeeper.GetAllAcceptedPurchaseOrders(ctx), b[0]); m != "" {
			return m
		}
		if m := wantQ("the raised queue after removing the other order", app.EnterpriseKeeper.GetAllRaisedPurchaseOrders(ctx), b[0]); m != "" {
			return m
		}
		app.EnterpriseKeeper.AddAddressToWhitelist(ctx, r1)
		lk := map[string]string{}
		for _, l := range app.EnterpriseKeeper.GetAllLockedUnds(ctx) {
			lk[l.Owner] = l.Amount.Amount.String()
		}
		sp := map[string]string{}
		for _, l := range app.EnterpriseKeeper.GetAllSpentEFUNDs(ctx) {
			sp[l.Owner] = l.Amount.Amount.String()
		}
		wl := map[string]bool{}
		for _, x := range app.EnterpriseKeeper.GetAllWhitelistedAddresses(ctx) {
			wl[x] = true
		}
		if len(lk) != 2 || lk[r1.String()] != "500" || lk[r2.String()] != "7" {
			return fmt.Sprintf("locked eFUND listing is %v, written: %s=500, %s=7", lk, r1, r2)
		}
		if len(sp) != 2 || sp[r1.String()] != "100" || sp[r2.String()] != "2" {
			return fmt.Sprintf("spent eFUND listing is %v, written: %s=100, %s=2", sp, r1, r2)
		}
		for _, x := range baseWL {
			delete(wl, x) // entries of the genesis whitelist
		}
		if len(wl) != 2 || !wl[r1.String()] || !wl[r2.String()] {
			return fmt.Sprintf("whitelist listing (without the genesis entries %v) is %v, written: %s, %s", baseWL, wl, r1, r2)
		}
		var bs []uint64
		for _, x := range app.BeaconKeeper.GetAllBeacons(ctx) {
			bs = append(bs, x.BeaconId)
		}
		if m := wantQ("the BEACON listing", bs, a[0], b[0]); m != "" {
			return m
		}
	}
	// --- streams
	if !(bytes.Equal(r1, r2) && bytes.Equal(s1, s2)) {
		now := c.Now
		stA := streamtypes.Stream{Deposit: coin(10), FlowRate: 1, LastOutflowTime: now, DepositZeroTime: now.Add(time.Hour), Cancellable: true}
		stB := streamtypes.Stream{Deposit: coin(20), FlowRate: 2, LastOutflowTime: now, DepositZeroTime: now.Add(time.Hour), Cancellable: true}
		app.StreamKeeper.SetStream(ctx, r1, s1, stA)
		app.StreamKeeper.SetStream(ctx, r2, s2, stB)
		stA.Deposit = coin(1000)
		app.StreamKeeper.SetStream(ctx, r1, s1, stA)
		if g, ok := app.StreamKeeper.GetStream(ctx, r2, s2); !ok || !g.Deposit.IsEqual(coin(20)) {
			return fmt.Sprintf("stream (%x,%x) changed after writing (%x,%x)", r2, s2, r1, s1)
		}
		// listings carry exactly the addresses the streams were created with
		wantPairs := map[string]int64{r1.String() + "|" + s1.String(): 1000, r2.String() + "|" + s2.String(): 20}
		resp, err := app.StreamKeeper.Streams(sdk.WrapSDKContext(ctx), &streamtypes.QueryStreamsRequest{Pagination: &query.PageRequest{Limit: 10}})
		if err != nil {
			return "Streams query failed: " + err.Error()
		}
		if len(resp.Streams) != 2 {
			return fmt.Sprintf("Streams lists %d streams, 2 were written", len(resp.Streams))
		}
		for _, s := range resp.Streams {
			if dep, ok := wantPairs[s.Receiver+"|"+s.Sender]; !ok || !s.Stream.Deposit.IsEqual(coin(dep)) {
				return fmt.Sprintf("Streams lists (%s,%s) with deposit %s, which is not a stream that was created", s.Receiver, s.Sender, s.Stream.Deposit)
			}
		}
		rr, err := app.StreamKeeper.AllStreamsForReceiver(sdk.WrapSDKContext(ctx), &streamtypes.QueryAllStreamsForReceiverRequest{ReceiverAddr: r2.String(), Pagination: &query.PageRequest{Limit: 10}})
		if err != nil {
			return "AllStreamsForReceiver failed: " + err.Error()
		}
		wantN := 1
		if bytes.Equal(r1, r2) {
			wantN = 2
		}
		if len(rr.Streams) != wantN {
			return fmt.Sprintf("AllStreamsForReceiver(%x) lists %d streams, %d were created for it", r2, len(rr.Streams), wantN)
		}
		for _, s := range rr.Streams {
			if _, ok := wantPairs[s.Receiver+"|"+s.Sender]; !ok {
				return fmt.Sprintf("AllStreamsForReceiver lists (%s,%s), which was never created", s.Receiver, s.Sender)
			}
		}
		sr, err := app.StreamKeeper.AllStreamsForSender(sdk.WrapSDKContext(ctx), &streamtypes.QueryAllStreamsForSenderRequest{SenderAddr: s2.String(), Pagination: &query.PageRequest{Limit: 10}})
		if err != nil {
			return "AllStreamsForSender failed: " + err.Error()
		}
		wantN = 1
		if bytes.Equal(s1, s2) {
			wantN = 2
		}
		if len(sr.Streams) != wantN {
			return fmt.Sprintf("AllStreamsForSender(%x) lists %d streams, %d were created by it", s2, len(sr.Streams), wantN)
		}
		for _, s := range sr.Streams {
			if _, ok := wantPairs[s.Receiver+"|"+s.Sender]; !ok {
				return fmt.Sprintf("AllStreamsForSender lists (%s,%s), which was never created", s.Receiver, s.Sender)
			}
		}
		app.StreamKeeper.DeleteStream(ctx, r1, s1)
		if g, ok := app.StreamKeeper.GetStream(ctx, r2, s2); !ok || !g.Deposit.IsEqual(coin(20)) {
			return fmt.Sprintf("stream (%x,%x) affected by deleting (%x,%x)", r2, s2, r1, s1)
		}
		if app.StreamKeeper.IsStream(ctx, r1, s1) {
			return "deleted stream still present"
		}
	}
	return ""
}

func shortStack() string {
	st := string(debug.Stack())
	var out []string
	for _, l := range strings.Split(st, "\n") {
		if strings.Contains(l, "mainchain") || strings.Contains(l, "cosmos-sdk/types") {
			out = append(out, strings.TrimSpace(l))
		}
	}
	if len(out) > 12 {
		out = out[:12]
	}
	return strings.Join(out, " | ")
}

// FuzzC18 is the coverage-guided variant (thorough tier).
func FuzzC18(f *testing.F) {
	f.Add([]byte{0}, []byte{0}, []byte{0, 1}, bytes.Repeat([]byte{0xff}, 255), uint64(0), uint64(0), uint64(1), uint64(1)<<63)
	f.Add(bytes.Repeat([]byte{1}, 20), bytes.Repeat([]byte{2}, 20), bytes.Repeat([]byte{1}, 21), bytes.Repeat([]byte{2}, 19), uint64(255), uint64(256), ^uint64(0), uint64(0))
	f.Add(bytes.Repeat([]byte{32}, 32), []byte{32}, []byte{32}, bytes.Repeat([]byte{32}, 32), uint64(1)<<32, uint64(1)<<32-1, uint64(1)<<56, uint64(65536))
	f.Fuzz(func(t *testing.T, r1, s1, r2, s2 []byte, a0, a1, b0, b1 uint64) {
		for _, x := range [][]byte{r1, s1, r2, s2} {
			if len(x) < 1 || len(x) > 255 {
				t.Skip()
			}
		}
		if msg := checkIDs([]uint64{a0, a1}, []uint64{b0, b1}); msg != "" {
			t.Fatalf("C18 violated: %s", msg)
		}
		if msg := checkAddrs([][]byte{r1, s1}, [][]byte{r2, s2}); msg != "" {
			t.Fatalf("C18 violated: %s", msg)
		}
	})
}
