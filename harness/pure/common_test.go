package pure

import (
	"encoding/json"
	"fmt"
	"os"
	"path/filepath"
	"testing"

	"verifharness/sim"
)

type pureReplay struct {
	Prop     string          `json:"property"`
	Findings []sim.Finding   `json:"findings"`
	Input    json.RawMessage `json:"input"`
}

type failKeeper struct {
	prop string
	best *pureReplay
	size int
}

func (f *failKeeper) offer(input interface{}, msg string) {
	b, _ := json.Marshal(input)
	if f.best != nil && len(b) >= f.size {
		return
	}
	f.best = &pureReplay{Prop: f.prop, Findings: []sim.Finding{{Prop: f.prop, Msg: msg}}, Input: b}
	f.size = len(b)
	dir := os.Getenv("VERIF_REPLAY_DIR")
	if dir == "" {
		return
	}
	os.MkdirAll(dir, 0o755)
	out, _ := json.MarshalIndent(f.best, "", " ")
	os.WriteFile(filepath.Join(dir, f.prop+"-candidate.json"), out, 0o644)
}

// TestReplay re-evaluates a saved pure input without the PBT library.
func TestReplay(t *testing.T) {
	path := os.Getenv("VERIF_REPLAY_FILE")
	if path == "" {
		t.Skip("VERIF_REPLAY_FILE not set")
	}
	b, err := os.ReadFile(path)
	if err != nil {
		t.Fatal(err)
	}
	var rf pureReplay
	if err := json.Unmarshal(b, &rf); err != nil {
		t.Fatal(err)
	}
	var msg string
	switch rf.Prop {
	case "C19":
		var in c19Input
		json.Unmarshal(rf.Input, &in)
		if msg = checkC19(in); msg == rejectedSpelling {
			msg = ""
		}
	case "C18":
		var in c18Input
		json.Unmarshal(rf.Input, &in)
		msg = checkC18(in)
	default:
		t.Fatalf("no pure check for %s", rf.Prop)
	}
	if msg != "" {
		fmt.Printf("REPLAY-VIOLATION property=%s %s\n", rf.Prop, msg)
		t.Fatal("replay reproduces the violation")
	}
	fmt.Println("REPLAY-OK: the saved input no longer violates", rf.Prop)
}
