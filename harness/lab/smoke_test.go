package lab

import (
	"testing"
	"time"

	sdk "github.com/cosmos/cosmos-sdk/types"
	enttypes "github.com/unification-com/mainchain/x/enterprise/types"
	wrkchaintypes "github.com/unification-com/mainchain/x/wrkchain/types"
)

func DefaultCfg() GenesisCfg {
	accts := make([]AcctCfg, 6)
	for i := range accts {
		accts[i] = AcctCfg{Kind: KindBase, Bal: map[string]string{"nund": "1000000000000000", "stake": "1000000000"}}
	}
	return GenesisCfg{
		Accounts:  accts,
		Ent:       EntCfg{Signers: []int{1, 2}, MinAccepts: 1, TimeLimit: 100, Denom: "nund", Whitelist: []int{3}, StartID: 1},
		Wrk:       RegCfg{FeeReg: 1000, FeeRec: 10, FeePur: 5, Denom: "nund", DefLimit: 2, MaxLimit: 6, StartID: 1},
		Bcn:       RegCfg{FeeReg: 1000, FeeRec: 10, FeePur: 5, Denom: "nund", DefLimit: 2, MaxLimit: 6, StartID: 1},
		StreamFee: "0.01",
		MaxGas:    -1,
	}
}

func TestSmoke(t *testing.T) {
	for _, db := range []string{"mem", "level"} {
		c, err := New(DefaultCfg(), NodeOpts{DB: db})
		if err != nil {
			t.Fatal(err)
		}
		_, p := c.BeginBlock(time.Second)
		if p != nil {
			t.Fatal(p)
		}
		msg := enttypes.NewMsgUndPurchaseOrder(c.Accts[3].Addr, sdk.NewInt64Coin("nund", 5000))
		bz, err := c.BuildTx(c.Ctx(), TxSpec{Msgs: []sdk.Msg{msg}, Signers: []*Account{c.Accts[3]}, Gas: 500000})
		if err != nil {
			t.Fatal(err)
		}
		r, p := c.DeliverTx(bz)
		if p != nil || r.Code != 0 {
			t.Fatalf("deliver: %v %v", p, r.Log)
		}
		reg := wrkchaintypes.NewMsgRegisterWrkChain("mon", "gh", "name", "geth", c.Accts[4].Addr)
		bz, _ = c.BuildTx(c.Ctx(), TxSpec{Msgs: []sdk.Msg{reg}, Signers: []*Account{c.Accts[4]}, Gas: 500000, Fee: sdk.NewCoins(sdk.NewInt64Coin("nund", 1000))})
		cr, _ := c.CheckTx(bz)
		if cr.Code != 0 {
			t.Fatalf("check: %v", cr.Log)
		}
		r, _ = c.DeliverTx(bz)
		if r.Code != 0 {
			t.Fatalf("deliver2: %v", r.Log)
		}
		c.EndBlock()
		h, _ := c.Commit()
		t.Logf("%s hash %x height %d", db, h, c.Height)
		var resp enttypes.QueryEnterpriseUndPurchaseOrderResponse
		if err := c.Query("/mainchain.enterprise.v1.Query/EnterpriseUndPurchaseOrder", &enttypes.QueryEnterpriseUndPurchaseOrderRequest{PurchaseOrderId: 1}, &resp); err != nil {
			t.Fatal(err)
		}
		t.Logf("po %v", resp.PurchaseOrder)
		if err := c.Reopen(); err != nil {
			t.Fatal(err)
		}
		if c.App.LastBlockHeight() != 3 {
			t.Fatalf("height after reopen %d", c.App.LastBlockHeight())
		}
		st, err := c.Export()
		if err != nil {
			t.Fatal(err)
		}
		t.Logf("export %d bytes", len(st))
		c.Close()
	}
}
