// Package lab drives the real, fully wired mainchain application through its ABCI
// surface (InitChain, CheckTx, BeginBlock, DeliverTx, EndBlock, Commit, Query,
// export) from generated genesis configurations. Every ABCI call is wrapped in
// recover() so that a panic is an observation, not a harness crash.
package lab

import (
	"crypto/sha256"
	"encoding/binary"
	"encoding/json"
	"fmt"
	"os"
	"path/filepath"
	"sort"
	"strings"
	"time"

	dbm "github.com/cometbft/cometbft-db"
	abci "github.com/cometbft/cometbft/abci/types"
	"github.com/cometbft/cometbft/libs/log"
	tmproto "github.com/cometbft/cometbft/proto/tendermint/types"
	tmtypes "github.com/cometbft/cometbft/types"
	"github.com/cosmos/cosmos-sdk/baseapp"
	"github.com/cosmos/cosmos-sdk/client/flags"
	codectypes "github.com/cosmos/cosmos-sdk/codec/types"
	cryptocodec "github.com/cosmos/cosmos-sdk/crypto/codec"
	"github.com/cosmos/cosmos-sdk/crypto/keys/ed25519"
	"github.com/cosmos/cosmos-sdk/crypto/keys/secp256k1"
	cryptotypes "github.com/cosmos/cosmos-sdk/crypto/types"
	"github.com/cosmos/cosmos-sdk/server"
	"github.com/cosmos/cosmos-sdk/store"
	pruningtypes "github.com/cosmos/cosmos-sdk/store/pruning/types"
	simtestutil "github.com/cosmos/cosmos-sdk/testutil/sims"
	sdk "github.com/cosmos/cosmos-sdk/types"
	authtypes "github.com/cosmos/cosmos-sdk/x/auth/types"
	vestingtypes "github.com/cosmos/cosmos-sdk/x/auth/vesting/types"
	"github.com/cosmos/cosmos-sdk/x/authz"
	banktypes "github.com/cosmos/cosmos-sdk/x/bank/types"
	crisistypes "github.com/cosmos/cosmos-sdk/x/crisis/types"
	govtypes "github.com/cosmos/cosmos-sdk/x/gov/types"
	govv1 "github.com/cosmos/cosmos-sdk/x/gov/types/v1"
	slashingtypes "github.com/cosmos/cosmos-sdk/x/slashing/types"
	stakingtypes "github.com/cosmos/cosmos-sdk/x/staking/types"
	"github.com/cosmos/gogoproto/proto"

	"github.com/unification-com/mainchain/app"
	undtypes "github.com/unification-com/mainchain/types"
	beacontypes "github.com/unification-com/mainchain/x/beacon/types"
	enttypes "github.com/unification-com/mainchain/x/enterprise/types"
	streamtypes "github.com/unification-com/mainchain/x/stream/types"
	wrkchaintypes "github.com/unification-com/mainchain/x/wrkchain/types"
)

const (
	ChainID   = "verif-1"
	BondDenom = "stake"
	// VotingPeriodS is the governance voting period (seconds) of every lab chain.
	VotingPeriodS = 10
)

// Epoch is the genesis time of every lab chain (fixed; no wall clock).
var Epoch = time.Unix(1_700_000_000, 0).UTC()

// Account kinds.
const (
	KindBase = iota
	KindContVesting
	KindDelayedVesting
	KindPermLocked
)

// AcctCfg describes one genesis account. Balances are decimal strings so that
// amounts above 2^64 survive JSON.
type AcctCfg struct {
	Kind    int               `json:"kind"`
	Bal     map[string]string `json:"bal"`
	VestAmt string            `json:"vest,omitempty"`     // nund amount that is vesting (kinds != base)
	VestEnd int64             `json:"vest_end,omitempty"` // seconds after Epoch
}

type EntCfg struct {
	Signers    []int  `json:"signers"` // account indices
	MinAccepts uint64 `json:"min_accepts"`
	TimeLimit  uint64 `json:"time_limit"`
	Denom      string `json:"denom"`
	Whitelist  []int  `json:"whitelist"`
	StartID    uint64 `json:"start_id"`
}

type RegCfg struct {
	FeeReg   uint64 `json:"fee_reg"`
	FeeRec   uint64 `json:"fee_rec"`
	FeePur   uint64 `json:"fee_pur"`
	Denom    string `json:"denom"`
	DefLimit uint64 `json:"def_limit"`
	MaxLimit uint64 `json:"max_limit"`
	StartID  uint64 `json:"start_id"`
	// Prepop: registrations already present in the genesis document, with identifiers 1..Prepop (only when StartID is
	// larger, so that there may be a gap between the highest registered identifier and the starting identifier);
	// owner of the i-th is account i, no records, in-state limit = DefLimit.
	Prepop int `json:"prepop,omitempty"`
}

// PrepopN: how many registrations the genesis carries (0 when the starting identifier leaves no room).
func (r RegCfg) PrepopN() int {
	if r.Prepop <= 0 || r.StartID <= uint64(r.Prepop) {
		return 0
	}
	return r.Prepop
}

// GenesisCfg is the generated part of a genesis document.
type GenesisCfg struct {
	Accounts  []AcctCfg `json:"accounts"`
	Ent       EntCfg    `json:"ent"`
	Wrk       RegCfg    `json:"wrk"`
	Bcn       RegCfg    `json:"bcn"`
	StreamFee string    `json:"stream_fee"`       // sdk.Dec string
	Grants    [][2]int  `json:"grants,omitempty"` // (granter, grantee): generic authz grants for all custom msgs
	MaxGas    int64     `json:"max_gas"`          // consensus block max gas (-1 unlimited)
}

// NodeOpts are node-local settings that must not influence consensus.
type NodeOpts struct {
	DB              string `json:"db"`      // "mem" | "level"
	Pruning         string `json:"pruning"` // "default" | "nothing" | "everything"
	IAVLCache       int    `json:"iavl_cache"`
	FastNodeOff     bool   `json:"fastnode_off"`
	InterBlockCache bool   `json:"interblock_cache"`
	SkipGenesisInv  bool   `json:"skip_genesis_inv"`
	// Noise: node-local activity interleaved with block execution when a recording is replayed (C01):
	// 0 none; 1 CheckTx of every tx of a block before the block starts (a node with a mempool);
	// 2 additionally Simulate and ReCheckTx calls between DeliverTx calls, and list/point queries after commits.
	Noise int `json:"noise,omitempty"`
	// RestartEvery: when a recording is replayed (C01) the node is stopped and restarted from its database after
	// every commit, so that nothing it keeps in process memory outlives a block.
	RestartEvery bool `json:"restart_every,omitempty"`
	// InvCheckPeriod: the node's --inv-check-period (x/crisis asserts all registered invariants in end-block every
	// that many blocks; 0 = never). Node-local.
	InvCheckPeriod uint `json:"inv_check_period,omitempty"`
	// MinGasPrices: the node's minimum-gas-prices setting (app.toml; und writes 25.0nund by default). Node-local:
	// only this node's mempool admission looks at it.
	MinGasPrices string `json:"min_gas_prices,omitempty"`
	// TZOffsetH: the machine's time zone (hours east of UTC; time.Local while this node executes). Node-local.
	TZOffsetH int `json:"tz_offset_h,omitempty"`
}

type Account struct {
	Idx  int
	Priv cryptotypes.PrivKey
	Addr sdk.AccAddress
	Kind int
}

// Chain is one running node.
type Chain struct {
	Cfg   GenesisCfg
	Opts  NodeOpts
	App   *app.App
	Accts []*Account

	db      dbm.DB
	home    string
	dbdir   string
	valPub  cryptotypes.PubKey
	valAddr []byte
	valHash []byte

	Height  int64 // last committed height
	Now     time.Time
	hdr     tmproto.Header
	InBlock bool
}

var sealed bool

func ensureConfig() {
	if sealed {
		return
	}
	cfg := sdk.GetConfig()
	if cfg.GetBech32AccountAddrPrefix() != undtypes.Bech32PrefixAccAddr {
		app.SetConfig()
	}
	sealed = true
}

// AcctKey derives the deterministic key of account i.
func AcctKey(i int) cryptotypes.PrivKey {
	return secp256k1.GenPrivKeyFromSecret([]byte(fmt.Sprintf("acct-%d", i)))
}

func AcctAddr(i int) sdk.AccAddress {
	return sdk.AccAddress(AcctKey(i).PubKey().Address())
}

// CustomMsgURLs are the type URLs granted by GenesisCfg.Grants.
var CustomMsgURLs = []string{
	"/mainchain.enterprise.v1.MsgUndPurchaseOrder",
	"/mainchain.enterprise.v1.MsgProcessUndPurchaseOrder",
	"/mainchain.enterprise.v1.MsgWhitelistAddress",
	"/mainchain.wrkchain.v1.MsgRegisterWrkChain",
	"/mainchain.wrkchain.v1.MsgRecordWrkChainBlock",
	"/mainchain.wrkchain.v1.MsgPurchaseWrkChainStateStorage",
	"/mainchain.beacon.v1.MsgRegisterBeacon",
	"/mainchain.beacon.v1.MsgRecordBeaconTimestamp",
	"/mainchain.beacon.v1.MsgPurchaseBeaconStateStorage",
	"/mainchain.stream.v1.MsgCreateStream",
	"/mainchain.stream.v1.MsgClaimStream",
	"/mainchain.stream.v1.MsgTopUpDeposit",
	"/mainchain.stream.v1.MsgUpdateFlowRate",
	"/mainchain.stream.v1.MsgCancelStream",
	"/cosmos.bank.v1beta1.MsgSend",
}

func (c *Chain) appOptions() simtestutil.AppOptionsMap {
	o := simtestutil.AppOptionsMap{}
	o[flags.FlagHome] = c.home
	o[server.FlagInvCheckPeriod] = c.Opts.InvCheckPeriod
	if c.Opts.SkipGenesisInv {
		o["x-crisis-skip-assert-invariants"] = true
	}
	return o
}

func (c *Chain) baseOptions() []func(*baseapp.BaseApp) {
	opts := []func(*baseapp.BaseApp){baseapp.SetChainID(ChainID)}
	switch c.Opts.Pruning {
	case "nothing":
		opts = append(opts, baseapp.SetPruning(pruningtypes.NewPruningOptions(pruningtypes.PruningNothing)))
	case "everything":
		opts = append(opts, baseapp.SetPruning(pruningtypes.NewPruningOptions(pruningtypes.PruningEverything)))
	case "custom":
		opts = append(opts, baseapp.SetPruning(pruningtypes.NewCustomPruningOptions(3, 10)))
	}
	if c.Opts.MinGasPrices != "" {
		opts = append(opts, baseapp.SetMinGasPrices(c.Opts.MinGasPrices))
	}
	if c.Opts.IAVLCache > 0 {
		opts = append(opts, baseapp.SetIAVLCacheSize(c.Opts.IAVLCache))
	}
	if c.Opts.FastNodeOff {
		opts = append(opts, baseapp.SetIAVLDisableFastNode(true))
	}
	if c.Opts.InterBlockCache {
		opts = append(opts, baseapp.SetInterBlockCache(store.NewCommitKVStoreCacheManager()))
	}
	return opts
}

func (c *Chain) openDB() error {
	if c.Opts.DB == "level" {
		d, err := dbm.NewGoLevelDB("application", c.dbdir)
		if err != nil {
			return err
		}
		c.db = d
		return nil
	}
	if c.db == nil {
		c.db = dbm.NewMemDB()
	}
	return nil
}

// ScratchRoot is where node homes and level DBs live; removed by Close.
func ScratchRoot() string {
	if d := os.Getenv("VERIF_SCRATCH"); d != "" {
		return d
	}
	return filepath.Join(os.TempDir(), "vp-lab")
}

func mustInt(s string) sdk.Int {
	i, ok := sdk.NewIntFromString(s)
	if !ok {
		panic("bad int " + s)
	}
	return i
}

// New builds a node from a generated genesis configuration: NewApp, InitChain, Commit.
func New(cfg GenesisCfg, opts NodeOpts) (c *Chain, err error) {
	ensureConfig()
	c = &Chain{Cfg: cfg, Opts: opts}
	if err := os.MkdirAll(ScratchRoot(), 0o755); err != nil {
		return nil, err
	}
	c.home, err = os.MkdirTemp(ScratchRoot(), "home-")
	if err != nil {
		return nil, err
	}
	c.dbdir = filepath.Join(c.home, "data")
	if err := c.openDB(); err != nil {
		return nil, err
	}
	for i := range cfg.Accounts {
		k := AcctKey(i)
		c.Accts = append(c.Accts, &Account{Idx: i, Priv: k, Addr: sdk.AccAddress(k.PubKey().Address()), Kind: cfg.Accounts[i].Kind})
	}
	valPriv := ed25519.GenPrivKeyFromSecret([]byte("validator-0"))
	c.valPub = valPriv.PubKey()
	c.valAddr = c.valPub.Address()

	defer func() {
		if r := recover(); r != nil {
			err = fmt.Errorf("panic building chain: %v", r)
			c.Close()
			c = nil
		}
	}()
	c.App = app.NewApp(log.NewNopLogger(), c.db, nil, true, c.appOptions(), c.baseOptions()...)
	state, err := c.genesisState()
	if err != nil {
		return nil, err
	}
	bz, err := json.Marshal(state)
	if err != nil {
		return nil, err
	}
	c.initChain(bz)
	return c, nil
}

func (c *Chain) consensusParams() *tmproto.ConsensusParams {
	cp := *simtestutil.DefaultConsensusParams
	blk := *cp.Block
	blk.MaxBytes = 10_000_000
	blk.MaxGas = c.Cfg.MaxGas
	if blk.MaxGas == 0 {
		blk.MaxGas = -1
	}
	cp.Block = &blk
	return &cp
}

func (c *Chain) initChain(appState []byte) {
	c.App.InitChain(abci.RequestInitChain{
		ChainId:         ChainID,
		Time:            Epoch,
		Validators:      []abci.ValidatorUpdate{},
		ConsensusParams: c.consensusParams(),
		AppStateBytes:   appState,
		InitialHeight:   1,
	})
	c.App.Commit()
	c.Height = c.App.LastBlockHeight()
	c.Now = Epoch
	c.emptyBlock()
}

// emptyBlock produces one empty block so that the mempool (check) state carries a
// non-zero height (at height 0 the SDK verifies signatures with account number 0).
func (c *Chain) emptyBlock() {
	if _, p := c.BeginBlock(time.Second); p != nil {
		panic(p)
	}
	if _, p := c.EndBlock(); p != nil {
		panic(p)
	}
	if _, p := c.Commit(); p != nil {
		panic(p)
	}
}

// NewFromAppState starts a fresh node from an exported application state (genesis import).
func NewFromAppState(cfg GenesisCfg, opts NodeOpts, appState []byte, startTime time.Time) (c *Chain, err error) {
	return newFromAppState(cfg, opts, appState, startTime, true)
}

// ImportAppState is NewFromAppState without the extra empty block: the first block
// of the new chain is produced by the caller (so that its time line can follow a twin).
func ImportAppState(cfg GenesisCfg, opts NodeOpts, appState []byte, startTime time.Time) (c *Chain, err error) {
	return newFromAppState(cfg, opts, appState, startTime, false)
}

func newFromAppState(cfg GenesisCfg, opts NodeOpts, appState []byte, startTime time.Time, firstBlock bool) (c *Chain, err error) {
	ensureConfig()
	c = &Chain{Cfg: cfg, Opts: opts}
	if err := os.MkdirAll(ScratchRoot(), 0o755); err != nil {
		return nil, err
	}
	c.home, err = os.MkdirTemp(ScratchRoot(), "home-")
	if err != nil {
		return nil, err
	}
	c.dbdir = filepath.Join(c.home, "data")
	if err := c.openDB(); err != nil {
		return nil, err
	}
	for i := range cfg.Accounts {
		k := AcctKey(i)
		c.Accts = append(c.Accts, &Account{Idx: i, Priv: k, Addr: sdk.AccAddress(k.PubKey().Address()), Kind: cfg.Accounts[i].Kind})
	}
	valPriv := ed25519.GenPrivKeyFromSecret([]byte("validator-0"))
	c.valPub = valPriv.PubKey()
	c.valAddr = c.valPub.Address()
	defer func() {
		if r := recover(); r != nil {
			msg := fmt.Sprint(r)
			if len(msg) > 600 {
				msg = msg[:600]
			}
			err = fmt.Errorf("panic importing genesis: %s", msg)
			c.Close()
			c = nil
		}
	}()
	c.App = app.NewApp(log.NewNopLogger(), c.db, nil, true, c.appOptions(), c.baseOptions()...)
	c.App.InitChain(abci.RequestInitChain{
		ChainId:         ChainID,
		Time:            startTime,
		Validators:      []abci.ValidatorUpdate{},
		ConsensusParams: c.consensusParams(),
		AppStateBytes:   appState,
		InitialHeight:   1,
	})
	c.App.Commit()
	c.Height = c.App.LastBlockHeight()
	c.Now = startTime
	if firstBlock {
		c.emptyBlock()
	}
	return c, nil
}

func (c *Chain) genesisState() (map[string]json.RawMessage, error) {
	cdc := c.App.AppCodec()
	gs := c.App.DefaultGenesis()
	cfg := c.Cfg

	// --- auth accounts + bank balances
	var genAccs []authtypes.GenesisAccount
	var balances []banktypes.Balance
	total := sdk.NewCoins()
	for i, a := range cfg.Accounts {
		acc := c.Accts[i]
		base := authtypes.NewBaseAccount(acc.Addr, nil, 0, 0)
		coins := sdk.NewCoins()
		denoms := make([]string, 0, len(a.Bal))
		for d := range a.Bal {
			denoms = append(denoms, d)
		}
		sort.Strings(denoms)
		for _, d := range denoms {
			amt := mustInt(a.Bal[d])
			if amt.IsPositive() {
				coins = coins.Add(sdk.NewCoin(d, amt))
			}
		}
		var ga authtypes.GenesisAccount = base
		if a.Kind != KindBase && a.VestAmt != "" {
			v := mustInt(a.VestAmt)
			have := coins.AmountOf(cfg.Ent.Denom)
			if v.GT(have) {
				v = have
			}
			if v.IsPositive() {
				vc := sdk.NewCoins(sdk.NewCoin(cfg.Ent.Denom, v))
				end := Epoch.Unix() + a.VestEnd
				if a.VestEnd <= 0 {
					end = Epoch.Unix() + 1000
				}
				switch a.Kind {
				case KindContVesting:
					ga = vestingtypes.NewContinuousVestingAccount(base, vc, Epoch.Unix(), end)
				case KindDelayedVesting:
					ga = vestingtypes.NewDelayedVestingAccount(base, vc, end)
				case KindPermLocked:
					ga = vestingtypes.NewPermanentLockedAccount(base, vc)
				}
			}
		}
		genAccs = append(genAccs, ga)
		if !coins.IsZero() {
			balances = append(balances, banktypes.Balance{Address: acc.Addr.String(), Coins: coins})
			total = total.Add(coins...)
		}
	}
	authGenesis := authtypes.NewGenesisState(authtypes.DefaultParams(), genAccs)
	gs[authtypes.ModuleName] = cdc.MustMarshalJSON(authGenesis)

	// --- staking: one bonded validator, delegated by account 0
	pkAny, err := codectypes.NewAnyWithValue(c.valPub)
	if err != nil {
		return nil, err
	}
	tmPub, err := cryptocodec.ToTmPubKeyInterface(c.valPub)
	if err != nil {
		return nil, err
	}
	tmVal := tmtypes.NewValidator(tmPub, 1)
	c.valHash = tmtypes.NewValidatorSet([]*tmtypes.Validator{tmVal}).Hash()
	bondAmt := sdk.DefaultPowerReduction
	validator := stakingtypes.Validator{
		OperatorAddress:   sdk.ValAddress(c.valAddr).String(),
		ConsensusPubkey:   pkAny,
		Status:            stakingtypes.Bonded,
		Tokens:            bondAmt,
		DelegatorShares:   sdk.OneDec().MulInt(bondAmt),
		Description:       stakingtypes.Description{},
		UnbondingTime:     time.Unix(0, 0).UTC(),
		Commission:        stakingtypes.NewCommission(sdk.ZeroDec(), sdk.ZeroDec(), sdk.ZeroDec()),
		MinSelfDelegation: sdk.ZeroInt(),
	}
	stakingParams := stakingtypes.DefaultParams()
	stakingParams.BondDenom = BondDenom
	deleg := stakingtypes.NewDelegation(c.Accts[0].Addr, c.valAddr, sdk.OneDec().MulInt(bondAmt))
	gs[stakingtypes.ModuleName] = cdc.MustMarshalJSON(stakingtypes.NewGenesisState(stakingParams, []stakingtypes.Validator{validator}, []stakingtypes.Delegation{deleg}))
	balances = append(balances, banktypes.Balance{
		Address: authtypes.NewModuleAddress(stakingtypes.BondedPoolName).String(),
		Coins:   sdk.Coins{sdk.NewCoin(BondDenom, bondAmt)},
	})
	total = total.Add(sdk.NewCoin(BondDenom, bondAmt))
	gs[banktypes.ModuleName] = cdc.MustMarshalJSON(banktypes.NewGenesisState(banktypes.DefaultGenesisState().Params, balances, total, []banktypes.Metadata{}, []banktypes.SendEnabled{}))

	// --- slashing: signing info for the genesis validator (it votes in every block)
	slGen := slashingtypes.DefaultGenesisState()
	consAddr := sdk.ConsAddress(c.valAddr)
	slGen.SigningInfos = []slashingtypes.SigningInfo{{
		Address:              consAddr.String(),
		ValidatorSigningInfo: slashingtypes.NewValidatorSigningInfo(consAddr, 0, 0, time.Unix(0, 0).UTC(), false, 0),
	}}
	gs[slashingtypes.ModuleName] = cdc.MustMarshalJSON(slGen)

	// --- gov: short voting period, one-stake deposit
	govGen := govv1.DefaultGenesisState()
	vp := time.Duration(VotingPeriodS) * time.Second
	govGen.Params.VotingPeriod = &vp
	govGen.Params.MinDeposit = sdk.Coins{sdk.NewCoin(BondDenom, sdk.NewInt(1))}
	gs[govtypes.ModuleName] = cdc.MustMarshalJSON(govGen)

	gs[crisistypes.ModuleName] = cdc.MustMarshalJSON(crisistypes.NewGenesisState(sdk.NewCoin(BondDenom, sdk.NewInt(1))))

	// --- enterprise
	var signers []string
	for _, s := range cfg.Ent.Signers {
		signers = append(signers, c.Accts[s%len(c.Accts)].Addr.String())
	}
	entGen := enttypes.DefaultGenesisState()
	entGen.Params = enttypes.NewParams(cfg.Ent.Denom, cfg.Ent.MinAccepts, cfg.Ent.TimeLimit, strings.Join(signers, ","))
	entGen.StartingPurchaseOrderId = cfg.Ent.StartID
	entGen.TotalLocked = sdk.NewInt64Coin(cfg.Ent.Denom, 0)
	entGen.TotalSpent = sdk.NewInt64Coin(cfg.Ent.Denom, 0)
	for _, w := range cfg.Ent.Whitelist {
		entGen.Whitelist = append(entGen.Whitelist, c.Accts[w%len(c.Accts)].Addr.String())
	}
	gs[enttypes.ModuleName] = cdc.MustMarshalJSON(entGen)

	// --- wrkchain / beacon
	var wregs wrkchaintypes.WrkChainExports
	for i := 0; i < cfg.Wrk.PrepopN(); i++ {
		wregs = append(wregs, wrkchaintypes.WrkChainExport{
			Wrkchain:     wrkchaintypes.WrkChain{WrkchainId: uint64(i + 1), Moniker: fmt.Sprintf("pre-w%d", i), Name: "pre", Genesis: "", Type: "geth", RegTime: uint64(Epoch.Unix()), Owner: c.Accts[i%len(c.Accts)].Addr.String()},
			InStateLimit: cfg.Wrk.DefLimit,
		})
	}
	wg := wrkchaintypes.NewGenesisState(wrkchaintypes.NewParams(cfg.Wrk.FeeReg, cfg.Wrk.FeeRec, cfg.Wrk.FeePur, cfg.Wrk.Denom, cfg.Wrk.DefLimit, cfg.Wrk.MaxLimit), cfg.Wrk.StartID, wregs)
	gs[wrkchaintypes.ModuleName] = cdc.MustMarshalJSON(wg)
	var bregs beacontypes.BeaconExports
	for i := 0; i < cfg.Bcn.PrepopN(); i++ {
		bregs = append(bregs, beacontypes.BeaconExport{
			Beacon:       beacontypes.Beacon{BeaconId: uint64(i + 1), Moniker: fmt.Sprintf("pre-b%d", i), Name: "", RegTime: uint64(Epoch.Unix()), Owner: c.Accts[i%len(c.Accts)].Addr.String()},
			InStateLimit: cfg.Bcn.DefLimit,
		})
	}
	bg := beacontypes.NewGenesisState(beacontypes.NewParams(cfg.Bcn.FeeReg, cfg.Bcn.FeeRec, cfg.Bcn.FeePur, cfg.Bcn.Denom, cfg.Bcn.DefLimit, cfg.Bcn.MaxLimit), cfg.Bcn.StartID, bregs)
	gs[beacontypes.ModuleName] = cdc.MustMarshalJSON(bg)

	// --- stream
	fee, err := sdk.NewDecFromStr(cfg.StreamFee)
	if err != nil {
		return nil, err
	}
	gs[streamtypes.ModuleName] = cdc.MustMarshalJSON(streamtypes.NewGenesisState(nil, streamtypes.NewParams(fee)))

	// --- authz grants
	if len(cfg.Grants) > 0 {
		var grants []authz.GrantAuthorization
		for _, g := range cfg.Grants {
			for _, url := range CustomMsgURLs {
				a, err := codectypes.NewAnyWithValue(authz.NewGenericAuthorization(url))
				if err != nil {
					return nil, err
				}
				grants = append(grants, authz.GrantAuthorization{
					Granter:       c.Accts[g[0]%len(c.Accts)].Addr.String(),
					Grantee:       c.Accts[g[1]%len(c.Accts)].Addr.String(),
					Authorization: a,
				})
			}
		}
		gs[authz.ModuleName] = cdc.MustMarshalJSON(authz.NewGenesisState(grants))
	}
	return gs, nil
}

// Close releases the DB and removes the node's scratch directory.
func (c *Chain) Close() {
	if c == nil {
		return
	}
	if c.db != nil {
		func() {
			defer func() { _ = recover() }()
			c.db.Close()
		}()
	}
	if c.home != "" {
		os.RemoveAll(c.home)
	}
}

// Reopen abandons the application object (a crash: anything not committed is
// lost) and builds a fresh one on the same database.
func (c *Chain) Reopen() (err error) {
	defer func() {
		if r := recover(); r != nil {
			err = fmt.Errorf("panic on reopen: %v", r)
		}
	}()
	if c.Opts.DB == "level" {
		if err := c.db.Close(); err != nil {
			return err
		}
		c.db = nil
		if err := c.openDB(); err != nil {
			return err
		}
	}
	c.App = app.NewApp(log.NewNopLogger(), c.db, nil, true, c.appOptions(), c.baseOptions()...)
	c.InBlock = false
	return nil
}

func (c *Chain) header(h int64, t time.Time) tmproto.Header {
	return tmproto.Header{
		ChainID:            ChainID,
		Height:             h,
		Time:               t,
		AppHash:            c.App.LastCommitID().Hash,
		ValidatorsHash:     c.valHash,
		NextValidatorsHash: c.valHash,
		ProposerAddress:    c.valAddr,
	}
}

// BeginBlockAt starts block Height+1 at absolute time t.
func (c *Chain) BeginBlockAt(t time.Time) (resp abci.ResponseBeginBlock, pan interface{}) {
	c.hdr = c.header(c.Height+1, t)
	defer func() {
		if r := recover(); r != nil {
			pan = r
		}
	}()
	resp = c.App.BeginBlock(abci.RequestBeginBlock{
		Header: c.hdr,
		LastCommitInfo: abci.CommitInfo{Votes: []abci.VoteInfo{{
			Validator:       abci.Validator{Address: c.valAddr, Power: 1},
			SignedLastBlock: true,
		}}},
	})
	c.InBlock = true
	c.Now = t
	return
}

func (c *Chain) BeginBlock(dt time.Duration) (abci.ResponseBeginBlock, interface{}) {
	return c.BeginBlockAt(c.Now.Add(dt))
}

func (c *Chain) DeliverTx(bz []byte) (resp abci.ResponseDeliverTx, pan interface{}) {
	defer func() {
		if r := recover(); r != nil {
			pan = r
		}
	}()
	resp = c.App.DeliverTx(abci.RequestDeliverTx{Tx: bz})
	return
}

func (c *Chain) CheckTx(bz []byte) (resp abci.ResponseCheckTx, pan interface{}) {
	defer func() {
		if r := recover(); r != nil {
			pan = r
		}
	}()
	resp = c.App.CheckTx(abci.RequestCheckTx{Tx: bz, Type: abci.CheckTxType_New})
	return
}

// ReCheckTx is the mempool's re-validation after a commit.
func (c *Chain) ReCheckTx(bz []byte) (resp abci.ResponseCheckTx, pan interface{}) {
	defer func() {
		if r := recover(); r != nil {
			pan = r
		}
	}()
	resp = c.App.CheckTx(abci.RequestCheckTx{Tx: bz, Type: abci.CheckTxType_Recheck})
	return
}

// Simulate runs the transaction in simulation mode (gas estimation by clients).
func (c *Chain) Simulate(bz []byte) (pan interface{}) {
	defer func() {
		if r := recover(); r != nil {
			pan = r
		}
	}()
	_, _, _ = c.App.Simulate(bz)
	return
}

func (c *Chain) EndBlock() (resp abci.ResponseEndBlock, pan interface{}) {
	defer func() {
		if r := recover(); r != nil {
			pan = r
		}
	}()
	resp = c.App.EndBlock(abci.RequestEndBlock{Height: c.hdr.Height})
	return
}

func (c *Chain) Commit() (hash []byte, pan interface{}) {
	defer func() {
		if r := recover(); r != nil {
			pan = r
		}
	}()
	r := c.App.Commit()
	c.Height = c.hdr.Height
	c.InBlock = false
	return r.Data, nil
}

// Ctx returns a read context: the in-block (deliver) state while a block is
// open, otherwise a fresh branch of the last committed state.
func (c *Chain) Ctx() sdk.Context {
	if c.InBlock {
		return c.App.NewContext(false, c.hdr)
	}
	return c.CommittedCtx()
}

// CommittedCtx is a throw-away branch of the last committed state.
func (c *Chain) CommittedCtx() sdk.Context {
	h := c.hdr
	if h.Height == 0 {
		h = tmproto.Header{ChainID: ChainID, Height: c.Height, Time: c.Now}
	}
	return sdk.NewContext(c.App.CommitMultiStore().CacheMultiStore(), h, false, log.NewNopLogger())
}

// CheckCtx is the mempool (check) state.
func (c *Chain) CheckCtx() sdk.Context {
	h := c.hdr
	if h.Height == 0 {
		h = tmproto.Header{ChainID: ChainID, Height: c.Height, Time: c.Now}
	}
	return c.App.NewContext(true, h)
}

// Query runs a gRPC query through the ABCI Query route on committed state.
func (c *Chain) Query(path string, req proto.Message, resp proto.Message) (err error) {
	defer func() {
		if r := recover(); r != nil {
			err = fmt.Errorf("query panic: %v", r)
		}
	}()
	bz, err := proto.Marshal(req)
	if err != nil {
		return err
	}
	r := c.App.Query(abci.RequestQuery{Path: path, Data: bz})
	if r.Code != 0 {
		return &QueryError{Code: r.Code, Codespace: r.Codespace, Log: r.Log}
	}
	return proto.Unmarshal(r.Value, resp)
}

type QueryError struct {
	Code      uint32
	Codespace string
	Log       string
}

func (e *QueryError) Error() string {
	return fmt.Sprintf("query failed: code=%d space=%s log=%s", e.Code, e.Codespace, e.Log)
}

// StoreNames of the four custom modules.
var CustomStores = []string{enttypes.StoreKey, wrkchaintypes.StoreKey, beacontypes.StoreKey, streamtypes.StoreKey}

// Digest hashes every (key,value) pair of the named stores as seen by ctx.
func (c *Chain) Digest(ctx sdk.Context, stores ...string) [32]byte {
	h := sha256.New()
	var lb [8]byte
	for _, name := range stores {
		key := c.App.GetKey(name)
		h.Write([]byte(name))
		it := ctx.KVStore(key).Iterator(nil, nil)
		for ; it.Valid(); it.Next() {
			k, v := it.Key(), it.Value()
			binary.BigEndian.PutUint64(lb[:], uint64(len(k)))
			h.Write(lb[:])
			h.Write(k)
			binary.BigEndian.PutUint64(lb[:], uint64(len(v)))
			h.Write(lb[:])
			h.Write(v)
		}
		it.Close()
	}
	var out [32]byte
	copy(out[:], h.Sum(nil))
	return out
}

// Dump returns the named stores as a sorted list of hex key/value strings (for diffs).
func (c *Chain) Dump(ctx sdk.Context, stores ...string) map[string]string {
	out := map[string]string{}
	for _, name := range stores {
		key := c.App.GetKey(name)
		it := ctx.KVStore(key).Iterator(nil, nil)
		for ; it.Valid(); it.Next() {
			out[fmt.Sprintf("%s/%x", name, it.Key())] = fmt.Sprintf("%x", it.Value())
		}
		it.Close()
	}
	return out
}

// Export runs the application's genesis export (as `und export` does).
func (c *Chain) Export() (state []byte, err error) {
	defer func() {
		if r := recover(); r != nil {
			err = fmt.Errorf("export panic: %v", r)
		}
	}()
	ex, err := c.App.ExportAppStateAndValidators(false, nil, nil)
	if err != nil {
		return nil, err
	}
	return ex.AppState, nil
}

// ExportAt runs the genesis export for a past height the way `und export --height N` does: a second application
// object on the same database, not loading the latest version, LoadHeight(N), export.
func (c *Chain) ExportAt(height int64) (state []byte, err error) {
	defer func() {
		if r := recover(); r != nil {
			err = fmt.Errorf("export panic: %v", r)
		}
	}()
	a := app.NewApp(log.NewNopLogger(), c.db, nil, false, c.appOptions(), c.baseOptions()...)
	if err := a.LoadHeight(height); err != nil {
		return nil, err
	}
	ex, err := a.ExportAppStateAndValidators(false, nil, nil)
	if err != nil {
		return nil, err
	}
	return ex.AppState, nil
}

// ExportZeroHeight runs `und export --for-zero-height` for the head: a second application object on the same database
// (the preparation for a zero-height genesis writes into that object's check state only, nothing is committed).
func (c *Chain) ExportZeroHeight() (state []byte, err error) {
	defer func() {
		if r := recover(); r != nil {
			err = fmt.Errorf("export panic: %v", r)
		}
	}()
	a := app.NewApp(log.NewNopLogger(), c.db, nil, true, c.appOptions(), c.baseOptions()...)
	ex, err := a.ExportAppStateAndValidators(true, nil, nil)
	if err != nil {
		return nil, err
	}
	return ex.AppState, nil
}

// ModuleAddr returns the address of a module account.
func ModuleAddr(name string) sdk.AccAddress { return authtypes.NewModuleAddress(name) }

// GovAddr is the governance authority.
func GovAddr() sdk.AccAddress { return authtypes.NewModuleAddress(govtypes.ModuleName) }

// ValAddr is the consensus/operator address bytes of the genesis validator.
func (c *Chain) ValAddr() []byte { return c.valAddr }
