package lab

import (
	"fmt"

	cryptotypes "github.com/cosmos/cosmos-sdk/crypto/types"
	sdk "github.com/cosmos/cosmos-sdk/types"
	"github.com/cosmos/cosmos-sdk/types/tx/signing"
	authsign "github.com/cosmos/cosmos-sdk/x/auth/signing"
)

// SignFault kinds (anybody can submit such transactions).
const (
	FaultNone = iota
	FaultWrongKey
	FaultSeqPlus
	FaultSeqMinus
	FaultChainID
	// FaultTamper: the signatures are made over SignOver, the transaction that is sent carries Msgs (somebody altered
	// the messages after they were signed)
	FaultTamper
)

// TxSpec describes one transaction at the wire level.
type TxSpec struct {
	Msgs    []sdk.Msg
	Signers []*Account // must match the union of msg signers, in order, for a valid tx
	Fee     sdk.Coins
	Gas     uint64
	Granter sdk.AccAddress
	Payer   sdk.AccAddress
	Fault   int
	// WrongKeyWith: account whose key signs instead (FaultWrongKey)
	WrongKeyWith *Account
	// Amino: sign with SIGN_MODE_LEGACY_AMINO_JSON (what hardware wallets use) instead of SIGN_MODE_DIRECT
	Amino bool
	// SignOver: the messages the signers saw (FaultTamper)
	SignOver []sdk.Msg
}

// AccountNumSeq reads account number and sequence from ctx (0,0 if the account does not exist).
func (c *Chain) AccountNumSeq(ctx sdk.Context, addr sdk.AccAddress) (uint64, uint64) {
	acc := c.App.AccountKeeper.GetAccount(ctx, addr)
	if acc == nil {
		return 0, 0
	}
	return acc.GetAccountNumber(), acc.GetSequence()
}

// BuildTx signs a transaction (SIGN_MODE_DIRECT unless spec.Amino), reading account numbers and
// sequences from ctx. The memo is empty (determinism).
func (c *Chain) BuildTx(ctx sdk.Context, spec TxSpec) (bz []byte, err error) {
	defer func() {
		if r := recover(); r != nil {
			err = fmt.Errorf("build panic: %v", r)
		}
	}()
	txConfig := c.App.TxConfig()
	signMode := txConfig.SignModeHandler().DefaultMode()
	if spec.Amino {
		signMode = signing.SignMode_SIGN_MODE_LEGACY_AMINO_JSON
	}
	b := txConfig.NewTxBuilder()
	signed := spec.Msgs
	if spec.Fault == FaultTamper && len(spec.SignOver) > 0 {
		signed = spec.SignOver
	}
	if err := b.SetMsgs(signed...); err != nil {
		return nil, err
	}
	b.SetFeeAmount(spec.Fee)
	b.SetGasLimit(spec.Gas)
	if spec.Granter != nil {
		b.SetFeeGranter(spec.Granter)
	}
	if spec.Payer != nil {
		b.SetFeePayer(spec.Payer)
	}
	n := len(spec.Signers)
	sigs := make([]signing.SignatureV2, n)
	nums := make([]uint64, n)
	seqs := make([]uint64, n)
	privs := make([]cryptotypes.PrivKey, n)
	for i, a := range spec.Signers {
		nums[i], seqs[i] = c.AccountNumSeq(ctx, a.Addr)
		privs[i] = a.Priv
		if i == 0 {
			switch spec.Fault {
			case FaultSeqPlus:
				seqs[i]++
			case FaultSeqMinus:
				if seqs[i] > 0 {
					seqs[i]--
				} else {
					seqs[i] += 2
				}
			}
		}
		sigs[i] = signing.SignatureV2{
			PubKey:   a.Priv.PubKey(),
			Data:     &signing.SingleSignatureData{SignMode: signMode},
			Sequence: seqs[i],
		}
	}
	if err := b.SetSignatures(sigs...); err != nil {
		return nil, err
	}
	chainID := ChainID
	if spec.Fault == FaultChainID {
		chainID = "other-chain"
	}
	for i, a := range spec.Signers {
		sd := authsign.SignerData{
			Address:       a.Addr.String(),
			ChainID:       chainID,
			AccountNumber: nums[i],
			Sequence:      seqs[i],
			PubKey:        a.Priv.PubKey(),
		}
		signBytes, err := txConfig.SignModeHandler().GetSignBytes(signMode, sd, b.GetTx())
		if err != nil {
			return nil, err
		}
		key := privs[i]
		if i == 0 && spec.Fault == FaultWrongKey && spec.WrongKeyWith != nil {
			key = spec.WrongKeyWith.Priv
		}
		sig, err := key.Sign(signBytes)
		if err != nil {
			return nil, err
		}
		sigs[i].Data.(*signing.SingleSignatureData).Signature = sig
	}
	if err := b.SetSignatures(sigs...); err != nil {
		return nil, err
	}
	if spec.Fault == FaultTamper && len(spec.SignOver) > 0 {
		if err := b.SetMsgs(spec.Msgs...); err != nil {
			return nil, err
		}
	}
	return txConfig.TxEncoder()(b.GetTx())
}
