package sim

import (
	"fmt"
	"math/big"
	"sort"
	"strings"

	abci "github.com/cometbft/cometbft/abci/types"
	sdk "github.com/cosmos/cosmos-sdk/types"
	"github.com/cosmos/cosmos-sdk/types/address"
	enttypes "github.com/unification-com/mainchain/x/enterprise/types"
)

// C14: (a) begin-block, end-block and commit never panic (recorded by
// World.classifyHalt); (b) a transaction whose checks or messages fail leaves all
// module state as it was, apart from the fee / sequence effects of the
// pre-execution stage (and the eFUND unlock that is part of it).

var c14Stores = []string{"enterprise", "wrkchain", "beacon", "stream", "bank", "acc", "authz", "gov", "staking", "feegrant"}

func bankBalanceKey(addr sdk.AccAddress) string {
	// bank store: 0x02 | len(addr) | addr | denom
	return fmt.Sprintf("bank/%x", append([]byte{0x02}, address.MustLengthPrefix(addr)...))
}

func init() {
	register(Hooks{
		Prop: "C14",
		AfterBegin: func(w *World, _ abci.ResponseBeginBlock) {
			// class: parameters changed while an order is queued
			for _, o := range w.Ent.Orders {
				if (o.Status == StRaised || o.Status == StAccepted) && w.Classes["gov.passed."+ParamsEnt] > 0 {
					w.Class("c14.ent-params-changed-with-order-queued")
					break
				}
			}
		},
		BeforeTx: func(w *World, bt *BuiltTx) {
			if bt.Tx.Check {
				return
			}
			bt.Snap["c14"] = w.C.Dump(w.C.Ctx(), c14Stores...)
		},
		AfterTx: func(w *World, bt *BuiltTx) {
			if !bt.Delivered || bt.OK {
				return
			}
			before := bt.Snap["c14"].(map[string]string)
			after := w.C.Dump(w.C.Ctx(), c14Stores...)
			var diff []string
			for k, v := range after {
				if before[k] != v {
					diff = append(diff, k)
				}
			}
			for k := range before {
				if _, ok := after[k]; !ok {
					diff = append(diff, k)
				}
			}
			sort.Strings(diff)
			w.Class("c14.failed-tx")
			if bt.Panicked {
				w.Class("c14.failed-by-panic")
			}
			if len(bt.Ops) >= 2 {
				w.Class("c14.failed-multi-message-tx")
				if bt.Ops[0].Expect.Verdict != MustReject && bt.AntePassed {
					w.Class("c14.failed-multi-message-tx-first-op-viable")
				}
			}
			if !bt.AntePassed {
				if len(diff) > 0 {
					w.Fail("C14", "a transaction rejected before execution (code %d) changed state: %s", bt.Res.Code, strings.Join(trim(diff, 6), ", "))
				}
				return
			}
			// ante passed, a message failed: only fee / sequence / unlock effects may remain
			allowed := map[string]bool{}
			parties := []sdk.AccAddress{w.addrName("fee-collector").Bytes, w.addrName("enterprise-escrow").Bytes}
			for _, s := range bt.Signers {
				parties = append(parties, s.Bytes)
			}
			if bt.Granter.Bytes != nil {
				parties = append(parties, bt.Granter.Bytes)
			}
			hasFeeOp := false
			for _, o := range bt.Ops {
				if o.IsFeeOp && bt.Tx.Wrap == WrapTop {
					hasFeeOp = true
				}
			}
			for _, k := range diff {
				ok := false
				switch {
				case strings.HasPrefix(k, "acc/"):
					ok = true // sequence numbers / pubkeys of the signers (checked via AntePassed)
				case strings.HasPrefix(k, "bank/"):
					for _, p := range parties {
						if strings.HasPrefix(k, bankBalanceKey(p)) {
							ok = true
						}
					}
					// denomination-address reverse index entries created with a first balance
					if strings.HasPrefix(k, "bank/03") {
						ok = true
					}
				case strings.HasPrefix(k, "feegrant/"):
					ok = bt.Granter.Bytes != nil
				case strings.HasPrefix(k, "enterprise/") && hasFeeOp:
					payer := bt.Payer.Bytes
					for _, ak := range [][]byte{enttypes.LockedUndAddressStoreKey(payer), enttypes.SpentEFUNDAddressStoreKey(payer), enttypes.TotalLockedUndKey, enttypes.TotalSpentEFUNDKey} {
						if k == fmt.Sprintf("enterprise/%x", ak) {
							ok = true
						}
					}
				}
				allowed[k] = ok
				if !ok {
					w.Fail("C14", "a failed transaction (code %d, %d messages) left a change behind at %s (all changes: %s)", bt.Res.Code, len(bt.Ops), k, strings.Join(trim(diff, 6), ", "))
					return
				}
			}
		},
	})
}

func trim(s []string, n int) []string {
	if len(s) > n {
		return append(append([]string{}, s[:n]...), fmt.Sprintf("... %d more", len(s)-n))
	}
	return s
}

var big2p256 = pow2(256)

func init() {
	haltPredicates = append(haltPredicates, func(w *World, phase, msg string) string {
		if phase != "BeginBlock" {
			return ""
		}
		ctx := w.C.CommittedCtx()
		k := w.C.App.EnterpriseKeeper
		denom := k.GetParamDenom(ctx)
		tl := k.GetTotalLockedUnd(ctx)
		accepted := k.GetAllAcceptedPurchaseOrders(ctx)
		sum := new(big.Int).Set(w.C.App.BankKeeper.GetSupply(ctx, denom).Amount.BigInt())
		denomMismatch := false
		for _, id := range accepted {
			po, ok := k.GetPurchaseOrder(ctx, id)
			if !ok {
				continue
			}
			// the order was raised in a denomination governance has since changed away from
			if po.Amount.Denom != denom {
				denomMismatch = true
			}
			// or the purchaser's / the total locked books are still kept in the previous denomination
			if tl.Denom != po.Amount.Denom || k.GetTotalSpentEFUND(ctx).Denom != po.Amount.Denom {
				denomMismatch = true
			}
			if a, err := sdk.AccAddressFromBech32(po.Purchaser); err == nil {
				if l := k.GetLockedUndForAccount(ctx, a); l.Amount.Denom != po.Amount.Denom {
					denomMismatch = true
				}
			}
			sum.Add(sum, po.Amount.Amount.BigInt())
		}
		if len(accepted) > 0 && denomMismatch {
			return "C14/ent-denom-change-halts"
		}
		// the completions would push supply (or the locked books) beyond what a 256-bit integer holds
		locked := new(big.Int).Set(tl.Amount.BigInt())
		for _, id := range accepted {
			if po, ok := k.GetPurchaseOrder(ctx, id); ok {
				locked.Add(locked, po.Amount.Amount.BigInt())
			}
		}
		if len(accepted) > 0 && (sum.Cmp(big2p256) >= 0 || locked.Cmp(big2p256) >= 0) {
			return "C14/supply-overflow-halts"
		}
		return ""
	})
}
