package sim

import (
	"fmt"
	"math/big"
	"sort"
	"strings"

	abci "github.com/cometbft/cometbft/abci/types"
	sdk "github.com/cosmos/cosmos-sdk/types"
	"github.com/cosmos/cosmos-sdk/types/address"
	enttypes "github.com/unification-com/mainchain/x/enterprise/types"
)

// C14: (a) begin-block, end-block and commit never panic (recorded by
// World.classifyHalt); (b) a transaction whose checks or messages fail leaves all
// module state as it was, apart from the fee / sequence effects of the
// pre-execution stage (and the eFUND unlock that is part of it).

var c14Stores = []string{"enterprise", "wrkchain", "beacon", "stream", "bank", "acc", "authz", "gov", "staking", "feegrant"}

func bankBalanceKey(addr sdk.AccAddress) string {
	// bank store: 0x02 | len(addr) | addr | denom
	return fmt.Sprintf("bank/%x", append([]byte{0x02}, address.MustLengthPrefix(addr)...))
}

func init() {
	register(Hooks{
		Prop: "C14",
		AfterBegin: func(w *World, _ abci.ResponseBeginBlock) {
			// class: parameters changed while an order is queued
			for _, o := range w.Ent.Orders {
				if (o.Status == StRaised || o.Status == StAccepted) && w.Classes["gov.passed."+ParamsEnt] > 0 {
					w.Class("c14.ent-params-changed-with-order-queued")
					break
				}
			}
		},
		BeforeTx: func(w *World, bt *BuiltTx) {
			if bt.Tx.Check {
				return
			}
			bt.Snap["c14"] = w.C.Dump(w.C.Ctx(), c14Stores...)
		},
		AfterTx: func(w *World, bt *BuiltTx) {
			if !bt.Delivered || bt.OK {
				return
			}
			before := bt.Snap["c14"].(map[string]string)
			after := w.C.Dump(w.C.Ctx(), c14Stores...)
			var diff []string
			for k, v := range after {
				if before[k] != v {
					diff = append(diff, k)
				}
			}
			for k := range before {
				if _, ok := after[k]; !ok {
					diff = append(diff, k)
				}
			}
			sort.Strings(diff)
			w.Class("c14.failed-tx")
			if bt.Panicked {
				w.Class("c14.failed-by-panic")
			}
			if len(bt.Ops) >= 2 {
				w.Class("c14.failed-multi-message-tx")
				if bt.Ops[0].Expect.Verdict != MustReject && bt.AntePassed {
					w.Class("c14.failed-multi-message-tx-first-op-viable")
				}
			}
			if !bt.AntePassed {
				if len(diff) > 0 {
					w.Fail("C14", "a transaction rejected before execution (code %d) changed state: %s", bt.Res.Code, strings.Join(trim(diff, 6), ", "))
				}
				return
			}
			// ante passed, a message failed: only fee / sequence / unlock effects may remain
			allowed := map[string]bool{}
			parties := []sdk.AccAddress{w.addrName("fee-collector").Bytes, w.addrName("enterprise-escrow").Bytes}
			for _, s := range bt.Signers {
				parties = append(parties, s.Bytes)
			}
			if bt.Granter.Bytes != nil {
				parties = append(parties, bt.Granter.Bytes)
			}
			hasFeeOp := bt.HasTopLevelFeeOp()
			for _, k := range diff {
				ok := false
				switch {
				case strings.HasPrefix(k, "acc/"):
					ok = true // sequence numbers / pubkeys of the signers (checked via AntePassed)
				case strings.HasPrefix(k, "bank/"):
					for _, p := range parties {
						if strings.HasPrefix(k, bankBalanceKey(p)) {
							ok = true
						}
					}
					// denomination-address reverse index entries created with a first balance
					if strings.HasPrefix(k, "bank/03") {
						ok = true
					}
				case strings.HasPrefix(k, "feegrant/"):
					ok = bt.Granter.Bytes != nil
				case strings.HasPrefix(k, "enterprise/") && hasFeeOp:
					payer := bt.Payer.Bytes
					for _, ak := range [][]byte{enttypes.LockedUndAddressStoreKey(payer), enttypes.SpentEFUNDAddressStoreKey(payer), enttypes.TotalLockedUndKey, enttypes.TotalSpentEFUNDKey} {
						if k == fmt.Sprintf("enterprise/%x", ak) {
							ok = true
						}
					}
				}
				allowed[k] = ok
				if !ok {
					w.Fail("C14", "a failed transaction (code %d, %d messages) left a change behind at %s (all changes: %s)", bt.Res.Code, len(bt.Ops), k, strings.Join(trim(diff, 6), ", "))
					return
				}
			}
			c14RetryPrefix(w, bt)
		},
	})
}

// c14RetryPrefix: metamorphic probe for effects of a failed transaction that are not visible in the stores (state
// kept outside the transaction's rollback scope). A top-level multi-message transaction failed at message index
// k >= 1, so its first message executed successfully against the pre-state and was rolled back. If the failed
// transaction changed nothing, the same first message submitted alone right afterwards meets the same state and
// must execute successfully as well (a retry that is refused before execution - e.g. the payer can no longer afford
// the fee after paying for the failed transaction - decides nothing).
func c14RetryPrefix(w *World, bt *BuiltTx) {
	if len(bt.Ops) < 2 || bt.Tx.Wrap != WrapTop || bt.Tx.Fault != 0 || bt.Panicked || w.Notes["c14.retrying"] == true || bt.Tx.Repeat > 1 {
		return
	}
	i := strings.Index(bt.Log, "message index: ")
	if i < 0 {
		return
	}
	var k int
	if _, err := fmt.Sscanf(bt.Log[i:], "message index: %d", &k); err != nil || k < 1 {
		return
	}
	first := bt.Ops[0]
	switch first.Op.Kind {
	case ParamsEnt, ParamsWrk, ParamsBcn, ParamsStr, AuthzGrant, FeeGrantOp:
		return
	}
	// the retry names exactly what the first message named: resolve nothing anew
	t := Tx{Ops: []Op{*first.Op}, Fee: FeeSpec{Mode: FeeExact}, FeePayer: bt.Tx.FeePayer, Granter: bt.Tx.Granter}
	w.Notes["c14.retrying"] = true
	defer delete(w.Notes, "c14.retrying")
	before := first.Desc
	rt := w.RunTx(&t)
	if w.stop() || rt == nil || !rt.Delivered || len(rt.Ops) != 1 {
		return
	}
	if rt.Ops[0].Desc != before {
		w.Class("c14.retry-resolved-differently")
		return // the reference resolved to something else (should not happen: the population is unchanged)
	}
	if !rt.AntePassed {
		w.Class("c14.retry-undecided-ante")
		return
	}
	w.Class("c14.retry-of-rolled-back-first-message")
	if !rt.OK {
		w.Fail("C14", "the first message of a failed %d-message transaction (failed at message index %d) had executed successfully and was rolled back; submitted alone right afterwards it is refused (code %d/%s: %s): the failed transaction left something behind outside the stores", len(bt.Ops), k, rt.Res.Code, rt.Res.Codespace, short(rt.Log))
	}
}

func trim(s []string, n int) []string {
	if len(s) > n {
		return append(append([]string{}, s[:n]...), fmt.Sprintf("... %d more", len(s)-n))
	}
	return s
}

var big2p256 = pow2(256)

func init() {
	haltPredicates = append(haltPredicates, func(w *World, phase, msg string) string {
		if phase != "BeginBlock" {
			return ""
		}
		ctx := w.C.CommittedCtx()
		k := w.C.App.EnterpriseKeeper
		denom := k.GetParamDenom(ctx)
		tl := k.GetTotalLockedUnd(ctx)
		accepted := k.GetAllAcceptedPurchaseOrders(ctx)
		sum := new(big.Int).Set(w.C.App.BankKeeper.GetSupply(ctx, denom).Amount.BigInt())
		denomMismatch := false
		for _, id := range accepted {
			po, ok := k.GetPurchaseOrder(ctx, id)
			if !ok {
				continue
			}
			// the order was raised in a denomination governance has since changed away from
			if po.Amount.Denom != denom {
				denomMismatch = true
			}
			// or the purchaser's / the total locked books are still kept in the previous denomination
			if tl.Denom != po.Amount.Denom || k.GetTotalSpentEFUND(ctx).Denom != po.Amount.Denom {
				denomMismatch = true
			}
			if a, err := sdk.AccAddressFromBech32(po.Purchaser); err == nil {
				if l := k.GetLockedUndForAccount(ctx, a); l.Amount.Denom != po.Amount.Denom {
					denomMismatch = true
				}
			}
			sum.Add(sum, po.Amount.Amount.BigInt())
		}
		if len(accepted) > 0 && denomMismatch {
			return "C14/ent-denom-change-halts"
		}
		// the completions would push supply (or the locked books) beyond what a 256-bit integer holds
		locked := new(big.Int).Set(tl.Amount.BigInt())
		for _, id := range accepted {
			if po, ok := k.GetPurchaseOrder(ctx, id); ok {
				locked.Add(locked, po.Amount.Amount.BigInt())
			}
		}
		if len(accepted) > 0 && (sum.Cmp(big2p256) >= 0 || locked.Cmp(big2p256) >= 0) {
			return "C14/supply-overflow-halts"
		}
		return ""
	})
}
