package sim

// Known-finding signature predicates. Each is a function of the failing case
// (never of the observed wrong value alone). A predicate only *names* a
// candidate signature; whether it suppresses anything is decided by
// known_findings.txt (a signature that is not listed there is an ordinary
// violation).

// haltSignature: which listed defect, if any, explains a panic in a block hook.
func haltSignature(w *World, phase, msg string) string {
	for _, p := range haltPredicates {
		if sig := p(w, phase, msg); sig != "" {
			return sig
		}
	}
	return ""
}

var haltPredicates []func(w *World, phase, msg string) string

// acceptSignature: a transaction the statement forbids was accepted.
func acceptSignature(w *World, bt *BuiltTx, prop string) string {
	return ""
}

// rejectSignature: a transaction the statement requires to succeed was rejected.
func rejectSignature(w *World, bt *BuiltTx, prop string) string {
	return ""
}
