package sim

import (
	"math/big"
	"time"

	sdk "github.com/cosmos/cosmos-sdk/types"
	"github.com/cosmos/cosmos-sdk/types/query"

	streamkeeper "github.com/unification-com/mainchain/x/stream/keeper"
	streamtypes "github.com/unification-com/mainchain/x/stream/types"
)

const qStr = "/mainchain.stream.v1.Query/"

func isStreamKind(k string) bool {
	switch k {
	case StrCreate, StrClaim, StrTopUp, StrUpdate, StrCancel:
		return true
	}
	return false
}

type strSnap struct {
	s, r, f, e *big.Int // balances of sender, receiver, fee collector, escrow in the stream's denomination
	denom      string
	existed    bool
	wasDrained bool
	durSecs    *big.Int
}

func balOf(w *World, ctx sdk.Context, a Addr, denom string) *big.Int {
	return w.C.App.BankKeeper.GetBalance(ctx, a.Bytes, denom).Amount.BigInt()
}

func streamEscrow(w *World, ctx sdk.Context) sdk.Coins {
	return w.C.App.BankKeeper.GetAllBalances(ctx, w.addrName("stream-escrow").Bytes)
}

// year 9999 in unix ms: protobuf timestamps cannot represent anything later
var maxProtoMs = big.NewInt(253402300799 * 1000)

// obsBook accumulates, per stream, the coin movements observed on chain (C10).
type obsBook struct {
	in, paid, fee, refund *big.Int
}

func getBooks(w *World) map[string]*obsBook {
	if b, ok := w.Notes["str.books"].(map[string]*obsBook); ok {
		return b
	}
	b := map[string]*obsBook{}
	w.Notes["str.books"] = b
	return b
}

func getUntracked(w *World) map[string]bool {
	if b, ok := w.Notes["str.untracked"].(map[string]bool); ok {
		return b
	}
	b := map[string]bool{}
	w.Notes["str.untracked"] = b
	return b
}

func streamHooks(prop string) Hooks {
	return Hooks{
		Prop: prop,
		BeforeTx: func(w *World, bt *BuiltTx) {
			if bt.Tx.Check {
				return
			}
			ctx := w.C.Ctx()
			bt.Snap["str.escrow"] = streamEscrow(w, ctx)
			if len(bt.Ops) != 1 || !isStreamKind(bt.Ops[0].Op.Kind) {
				return
			}
			o := bt.Ops[0]
			denom := o.Denom
			m := w.Str.Get(o.StreamR.Key(), o.StreamS.Key())
			if m != nil {
				denom = m.Denom
			}
			if denom == "" {
				return
			}
			sn := &strSnap{denom: denom, existed: m != nil,
				s: balOf(w, ctx, o.StreamS, denom), r: balOf(w, ctx, o.StreamR, denom),
				f: balOf(w, ctx, w.addrName("fee-collector"), denom), e: balOf(w, ctx, w.addrName("stream-escrow"), denom)}
			if m != nil {
				sn.wasDrained = m.Deposit.Sign() == 0
			}
			bt.Snap["str"] = sn
		},
		AfterTx: func(w *World, bt *BuiltTx) {
			if !bt.Delivered {
				return
			}
			ctx := w.C.Ctx()
			hasStream := false
			for _, o := range bt.Ops {
				if isStreamKind(o.Op.Kind) {
					hasStream = true
				}
			}
			// C12: no stream operation aborts with an arithmetic panic
			if prop == "C12" && hasStream && bt.Panicked {
				sig := panicSignature(w, bt)
				if sig != "" {
					w.FailSig("C12", sig, "a stream operation aborted with a panic: %s", short(bt.Log))
				} else {
					w.Fail("C12", "a stream operation aborted with a panic: %s", short(bt.Log))
				}
				return
			}
			// C10: transactions without stream operations never move the stream escrow
			if prop == "C10" && !hasStream {
				before := bt.Snap["str.escrow"].(sdk.Coins)
				if after := streamEscrow(w, ctx); !after.IsEqual(before) {
					w.Fail("C10", "stream escrow changed from %s to %s in a transaction without stream operations", before, after)
					return
				}
				for _, o := range bt.Ops {
					if o.Op.Kind == BankSend && o.StreamR.Name == "stream-escrow" {
						w.Class("c10.send-to-escrow")
					}
				}
			}
			sn, _ := bt.Snap["str"].(*strSnap)
			if sn == nil && bt.OK {
				// stream operations inside a multi-operation transaction are not attributed; forget those streams' books
				for _, o := range bt.Ops {
					if isStreamKind(o.Op.Kind) {
						delete(getBooks(w), skey(o.StreamR.Key(), o.StreamS.Key()))
						getUntracked(w)[skey(o.StreamR.Key(), o.StreamS.Key())] = true
					}
				}
			}
			if sn == nil || !bt.OK {
				return
			}
			o := bt.Ops[0]
			kind := o.Op.Kind
			w.Class(lower(prop) + ".ok." + kind)
			S, R := o.StreamS, o.StreamR
			F, E := w.addrName("fee-collector"), w.addrName("stream-escrow")
			distinct := S.Key() != R.Key() && R.Key() != F.Key() && S.Key() != F.Key() && R.Key() != E.Key() && S.Key() != E.Key()
			dS := new(big.Int).Sub(balOf(w, ctx, S, sn.denom), sn.s)
			dR := new(big.Int).Sub(balOf(w, ctx, R, sn.denom), sn.r)
			dF := new(big.Int).Sub(balOf(w, ctx, F, sn.denom), sn.f)
			dE := new(big.Int).Sub(balOf(w, ctx, E, sn.denom), sn.e)
			rel, _ := w.Notes["lastRelease"].(Release)
			if rel.Paid == nil {
				rel = Release{Paid: new(big.Int), Fee: new(big.Int), ToReceiver: new(big.Int)}
			}
			delete(w.Notes, "lastRelease")
			refund, _ := w.Notes["lastRefund"].(*big.Int)
			delete(w.Notes, "lastRefund")
			if !distinct {
				w.Class(lower(prop) + ".parties-not-distinct")
				return
			}
			obsPaid := new(big.Int).Add(dR, dF)
			key := skey(R.Key(), S.Key())
			books := getBooks(w)
			if kind == StrCreate {
				books[key] = &obsBook{new(big.Int), new(big.Int), new(big.Int), new(big.Int)}
				delete(getUntracked(w), key)
			}
			if books[key] == nil {
				books[key] = &obsBook{new(big.Int), new(big.Int), new(big.Int), new(big.Int)}
				getUntracked(w)[key] = true
			}
			bk := books[key]
			switch kind {
			case StrCreate, StrTopUp:
				bk.in.Sub(bk.in, dS)
			case StrCancel:
				bk.refund.Add(bk.refund, dS)
			}
			bk.paid.Add(bk.paid, dR)
			bk.fee.Add(bk.fee, dF)

			cs, found := w.C.App.StreamKeeper.GetStream(ctx, R.Bytes, S.Bytes)
			model := w.Str.Get(R.Key(), S.Key())

			switch prop {
			case "C10":
				sum := new(big.Int).Add(dS, dR)
				sum.Add(sum, dF).Add(sum, dE)
				if sum.Sign() != 0 {
					w.Fail("C10", "%s: coins are not conserved between sender, receiver, fee collector and escrow (deltas %s %s %s %s)", kind, dS, dR, dF, dE)
					return
				}
				// fee split: fee collector gets floor(released x rate), receiver the rest
				wantFee := new(big.Int).Mul(obsPaid, w.Str.FeeScaled)
				wantFee.Quo(wantFee, bigE18)
				if dF.Cmp(wantFee) != 0 {
					w.Fail("C10", "%s released %s; fee collector received %s, expected floor(released x fee rate) = %s", kind, obsPaid, dF, wantFee)
					return
				}
				if obsPaid.Sign() > 0 && w.Str.FeeScaled.Sign() > 0 {
					w.Class("c10.release-with-fee")
				}
				// per-stream conservation: deposited = paid + fees + refunds + remaining
				remaining := new(big.Int)
				if found {
					remaining = cs.Deposit.Amount.BigInt()
				}
				tot := new(big.Int).Add(bk.paid, bk.fee)
				tot.Add(tot, bk.refund).Add(tot, remaining)
				if tot.Cmp(bk.in) != 0 && !getUntracked(w)[key] {
					w.Fail("C10", "stream %s->%s: deposited %s != paid %s + fees %s + refunded %s + remaining %s", S.Name, R.Name, bk.in, bk.paid, bk.fee, bk.refund, remaining)
					return
				}
			case "C11":
				if kind != StrCreate && obsPaid.Cmp(rel.Paid) != 0 {
					sig := releaseSignature(w, bt, sn, model, obsPaid, rel.Paid)
					if sig != "" {
						w.FailSig("C11", sig, "%s released %s, the agreed rate allows exactly %s", kind, obsPaid, rel.Paid)
					} else {
						w.Fail("C11", "%s released %s, the agreed rate allows exactly %s", kind, obsPaid, rel.Paid)
					}
					return
				}
				if obsPaid.Sign() > 0 && model != nil && model.Deposit.Sign() > 0 && kind == StrClaim {
					w.Class("c11.release-before-zero")
				}
				if kind != StrClaim && kind != StrCreate {
					w.Class("c11.settle-by-" + kind)
				}
				if kind == StrCancel {
					if refund == nil {
						refund = new(big.Int)
					}
					if dS.Cmp(refund) != 0 {
						w.Fail("C11", "cancel refunded %s to the sender, the unreleased remainder is %s", dS, refund)
						return
					}
					if found {
						w.Fail("C11", "stream still exists after a successful cancel")
					}
					return
				}
				if !found || model == nil {
					w.Fail("C11", "stream missing after a successful %s", kind)
					return
				}
				if cs.Deposit.Amount.BigInt().Cmp(model.Deposit) != 0 {
					w.Fail("C11", "%s: remaining deposit %s on chain, %s by the agreed rate", kind, cs.Deposit.Amount, model.Deposit)
					return
				}
				if cs.FlowRate != model.Rate {
					w.Fail("C11", "%s: flow rate %d on chain, expected %d", kind, cs.FlowRate, model.Rate)
					return
				}
				if model.ZeroMs.Cmp(maxProtoMs) <= 0 {
					zc := big.NewInt(cs.DepositZeroTime.UnixMilli())
					if zc.Cmp(model.ZeroMs) != 0 {
						sig := zeroSignature(w, bt, sn, model)
						msg := "deposit-zero time advertised as " + cs.DepositZeroTime.UTC().Format(time.RFC3339) + ", funding time + floor(deposit/rate) s is " + time.UnixMilli(model.ZeroMs.Int64()).UTC().Format(time.RFC3339)
						if sig != "" {
							w.FailSig("C11", sig, "%s: %s", kind, msg)
						} else {
							w.Fail("C11", "%s: %s", kind, msg)
						}
						return
					}
				} else {
					w.Class("c11.zero-time-beyond-year-9999")
				}
				// remaining deposit sustains the rate from the last release to the advertised zero time
				// (only while something is advertised for the future: an expired or empty stream has nothing left to sustain)
				if cs.DepositZeroTime.After(w.C.Now) && cs.DepositZeroTime.After(cs.LastOutflowTime) {
					secs := new(big.Int).Sub(big.NewInt(cs.DepositZeroTime.UnixMilli()), big.NewInt(cs.LastOutflowTime.UnixMilli()))
					secs.Quo(secs, big1000)
					need := new(big.Int).Mul(secs, big.NewInt(cs.FlowRate))
					if cs.Deposit.Amount.BigInt().Cmp(need) < 0 {
						sig := ""
						if sn.wasDrained && kind == StrTopUp {
							sig = "C11/stale-outflow-after-refund"
						}
						if sig != "" {
							w.FailSig("C11", sig, "%s: remaining deposit %s cannot sustain %d/s from the last release (%s) to the advertised zero time (%s)", kind, cs.Deposit.Amount, cs.FlowRate, cs.LastOutflowTime.UTC().Format(time.RFC3339), cs.DepositZeroTime.UTC().Format(time.RFC3339))
						} else {
							w.Fail("C11", "%s: remaining deposit %s cannot sustain %d/s from the last release (%s) to the advertised zero time (%s)", kind, cs.Deposit.Amount, cs.FlowRate, cs.LastOutflowTime.UTC().Format(time.RFC3339), cs.DepositZeroTime.UTC().Format(time.RFC3339))
						}
						return
					}
				}
			case "C12":
				if model != nil && (model.In.BitLen() > 63) {
					w.Class("c12.stream-above-2^63")
				}
			}
		},
		AfterCommit: func(w *World) {
			if prop != "C10" {
				return
			}
			ctx := w.C.Ctx()
			// escrow balance per denomination == sum of remaining deposits over the Streams listing (paged)
			total := sdk.NewCoins()
			var next []byte
			n := 0
			for {
				var resp streamtypes.QueryStreamsResponse
				err := w.C.Query(qStr+"Streams", &streamtypes.QueryStreamsRequest{Pagination: &query.PageRequest{Key: next, Limit: 3}}, &resp)
				if err != nil {
					w.Fail("C10", "Streams query failed: %v", err)
					return
				}
				for _, s := range resp.Streams {
					total = total.Add(s.Stream.Deposit)
					n++
				}
				if resp.Pagination == nil || len(resp.Pagination.NextKey) == 0 {
					break
				}
				next = resp.Pagination.NextKey
			}
			bal := streamEscrow(w, ctx)
			if !bal.IsEqual(total) {
				w.Fail("C10", "stream escrow holds %s but the %d listed streams have %s remaining", bal, n, total)
				return
			}
			if len(total) >= 2 {
				w.Class("c10.escrow-multi-denom")
			}
			if n >= 2 {
				w.Class("c10.multi-stream-state")
			}
			func() {
				defer func() {
					if r := recover(); r != nil {
						w.Fail("C10", "stream module-account invariant panicked: %v", r)
					}
				}()
				if msg, broken := streamkeeper.ModuleAccountInvariant(w.C.App.StreamKeeper)(ctx); broken {
					w.Fail("C10", "registered invariant stream/module-account broken: %s", msg)
				}
			}()
		},
		Finish: func(w *World) {
			if prop != "C12" {
				return
			}
			// sweep: every surviving stream with a positive deposit can be claimed by its receiver and cancelled by its sender
			for guard := 0; guard < 12; guard++ {
				ss := w.Str.Sorted()
				var tgt *StreamM
				idx := 0
				for i, s := range ss {
					if s.Deposit.Sign() > 0 {
						tgt, idx = s, i
						break
					}
				}
				if tgt == nil {
					// every stream has been claimed and cancelled: nothing may be left in the escrow (coins that no
					// stream accounts for can never be claimed or refunded - stranded funds)
					if w.stop() || w.Diverged || w.C.InBlock {
						return
					}
					ctx := w.C.Ctx()
					listed := sdk.NewCoins()
					w.C.App.StreamKeeper.IterateAllStreams(ctx, func(_, _ sdk.AccAddress, st streamtypes.Stream) bool {
						listed = listed.Add(st.Deposit)
						return false
					})
					if esc := w.C.App.BankKeeper.GetAllBalances(ctx, w.addrName("stream-escrow").Bytes); listed.IsZero() && !esc.IsZero() {
						w.Fail("C12", "after every stream was claimed by its receiver and cancelled by its sender, %s remain in the stream escrow and no stream accounts for them: stranded funds", esc)
					} else if listed.IsZero() {
						w.Class("c12.sweep-left-escrow-empty")
					}
					return
				}
				blk := Block{DtMs: 1000}
				if w.addrByKey(tgt.Receiver).Acct != nil {
					blk.Txs = append(blk.Txs, Tx{Ops: []Op{{Kind: StrClaim, Actor: -1, Named: -1, Ref: idx}}})
				}
				w.Class("c12.sweep")
				if !w.RunBlock(&blk) {
					return
				}
				if t2 := w.Str.Get(tgt.Receiver, tgt.Sender); t2 != nil {
					ss = w.Str.Sorted()
					for i, s := range ss {
						if s == t2 {
							idx = i
						}
					}
					blk2 := Block{DtMs: 1000, Txs: []Tx{{Ops: []Op{{Kind: StrCancel, Actor: -1, Named: -1, Ref: idx}}}}}
					if !w.RunBlock(&blk2) {
						return
					}
					if w.Str.Get(tgt.Receiver, tgt.Sender) != nil {
						return // cancel did not go through (reported by the expectation check)
					}
				}
			}
		},
	}
}

func init() {
	register(streamHooks("C10"))
	register(streamHooks("C11"))
	register(streamHooks("C12"))
}

// ---- signature predicates (functions of the failing case)

var big2p63 = pow2(63)

// panicSignature: which listed arithmetic panic, if any, explains an aborted stream operation.
func panicSignature(w *World, bt *BuiltTx) string {
	return ""
}

func releaseSignature(w *World, bt *BuiltTx, sn *strSnap, model *StreamM, obs, want *big.Int) string {
	return ""
}

func zeroSignature(w *World, bt *BuiltTx, sn *strSnap, model *StreamM) string {
	return ""
}
