package sim

import (
	"bufio"
	"os"
	"strings"
	"sync"
)

// KnownSet is the read-only content of /verif/known_findings.txt: signatures of
// genuine defects that are recorded rather than repaired. A signature is a narrow
// predicate over the failing case, implemented in signatures.go.
type KnownSet struct {
	Sigs map[string]string // signature -> description
}

var (
	knownOnce sync.Once
	known     *KnownSet
)

// LoadedKnown reads $VERIF_KNOWN_FINDINGS (default /verif/known_findings.txt) once.
func LoadedKnown() *KnownSet {
	knownOnce.Do(func() {
		known = &KnownSet{Sigs: map[string]string{}}
		path := os.Getenv("VERIF_KNOWN_FINDINGS")
		if path == "" {
			path = "/verif/known_findings.txt"
		}
		f, err := os.Open(path)
		if err != nil {
			return
		}
		defer f.Close()
		sc := bufio.NewScanner(f)
		for sc.Scan() {
			line := strings.TrimSpace(sc.Text())
			if !strings.HasPrefix(line, "known:") {
				continue // "fixed:" lines and comments suppress nothing
			}
			var sig string
			for _, f := range strings.Fields(line) {
				if strings.HasPrefix(f, "sig=") {
					sig = strings.TrimPrefix(f, "sig=")
				}
			}
			if sig != "" {
				known.Sigs[sig] = line
			}
		}
	})
	return known
}

func (k *KnownSet) Has(sig string) bool {
	if k == nil || sig == "" {
		return false
	}
	_, ok := k.Sigs[sig]
	return ok
}
