package sim

import (
	"encoding/json"
	"fmt"
	"math/big"
	"sort"
	"strings"
	"time"

	abci "github.com/cometbft/cometbft/abci/types"
	sdk "github.com/cosmos/cosmos-sdk/types"
	bankkeeper "github.com/cosmos/cosmos-sdk/x/bank/keeper"

	entkeeper "github.com/unification-com/mainchain/x/enterprise/keeper"
	enttypes "github.com/unification-com/mainchain/x/enterprise/types"

	"verifharness/lab"
)

const qEnt = "/mainchain.enterprise.v1.Query/"

func keyOfBech32(s string) string {
	a, err := sdk.AccAddressFromBech32(s)
	if err != nil {
		return "!" + s
	}
	return string(a)
}

// ---------------------------------------------------------------- C03

type c03State struct {
	lockedBefore map[string]*big.Int
}

func lockedOf(w *World, ctx sdk.Context, a Addr) *big.Int {
	return w.C.App.EnterpriseKeeper.GetLockedUndAmountForAccount(ctx, a.Bytes).Amount.BigInt()
}

func spentOf(w *World, ctx sdk.Context, a Addr) *big.Int {
	return w.C.App.EnterpriseKeeper.GetSpentEFUNDAmountForAccount(ctx, a.Bytes).Amount.BigInt()
}

func init() {
	register(Hooks{
		Prop: "C03",
		BeforeBegin: func(w *World, now time.Time) {
			st := &c03State{lockedBefore: map[string]*big.Int{}}
			ctx := w.C.Ctx()
			for _, a := range w.Book {
				st.lockedBefore[a.Key()] = lockedOf(w, ctx, a)
			}
			w.Notes["c03"] = st
		},
		AfterBegin: func(w *World, _ abci.ResponseBeginBlock) {
			st := w.Notes["c03"].(*c03State)
			ctx := w.C.Ctx()
			k := w.C.App.EnterpriseKeeper
			// the model's begin-block step (tally and completion) is taken by the executor for every check, so that
			// order statuses in the model follow the chain in all histories; here its outcomes are judged
			prev, outcomes, completed := w.EntPrev, w.EntOutcomes, w.EntCompleted
			for _, oc := range outcomes {
				po, ok := k.GetPurchaseOrder(ctx, oc.ID)
				obs := StNil
				if ok {
					obs = int(po.Status)
				}
				allowed := false
				for _, a := range oc.Allowed {
					if a == obs {
						allowed = true
					}
				}
				if len(oc.Allowed) > 1 {
					w.Class("c03.deadline-ambiguous")
				}
				if !allowed {
					o := w.Ent.Order(oc.ID)
					w.Fail("C03", "order %d: status after begin-block is %d, the statement allows %v (was %d; accepts/rejects %s; raise %d now %d limit %d minAccepts %d signers %d)",
						oc.ID, obs, oc.Allowed, prev[oc.ID], tallyStr(o), o.RaiseTime, w.NowUnix(), w.Ent.P.TimeLimit, w.Ent.P.MinAccepts, len(w.Ent.P.Signers))
					return
				}
				switch obs {
				case StCompleted:
					w.Class("c03.completed")
				case StRejected:
					if prev[oc.ID] == StRaised {
						w.Class("c03.rejected")
					}
				case StAccepted:
					w.Class("c03.accepted")
				}
			}
			// exactly the completed amounts are credited as locked eFUND, to the purchasers only
			credit := map[string]*big.Int{}
			for _, o := range completed {
				if credit[o.Purchaser] == nil {
					credit[o.Purchaser] = new(big.Int)
				}
				if o.Denom == w.Ent.P.Denom {
					credit[o.Purchaser].Add(credit[o.Purchaser], o.Amount)
				}
			}
			for _, a := range w.Book {
				after := lockedOf(w, ctx, a)
				want := new(big.Int).Set(st.lockedBefore[a.Key()])
				if c := credit[a.Key()]; c != nil {
					want.Add(want, c)
				}
				if after.Cmp(want) != 0 {
					w.Fail("C03", "locked eFUND of %s after begin-block is %s, expected %s (before %s, completed orders credit %v)", a.Name, after, want, st.lockedBefore[a.Key()], credit[a.Key()])
					return
				}
			}
		},
		AfterTx: func(w *World, bt *BuiltTx) {
			if !bt.Delivered {
				return
			}
			for _, o := range bt.Ops {
				if o.Module == "ent" && bt.OK {
					w.Class("c03.ok." + o.Op.Kind)
				}
			}
		},
		AfterCommit: func(w *World) { c03Compare(w) },
	})
}

func tallyStr(o *Order) string {
	if o == nil {
		return "?"
	}
	a, r := 0, 0
	for _, d := range o.Decisions {
		if d.Accept {
			a++
		} else {
			r++
		}
	}
	return fmt.Sprintf("%d/%d", a, r)
}

// c03Compare: every order ever raised is compared with the model by point query.
func c03Compare(w *World) {
	for _, o := range w.Ent.Orders {
		var resp enttypes.QueryEnterpriseUndPurchaseOrderResponse
		err := w.C.Query(qEnt+"EnterpriseUndPurchaseOrder", &enttypes.QueryEnterpriseUndPurchaseOrderRequest{PurchaseOrderId: o.ID}, &resp)
		if err != nil {
			w.Fail("C03", "order %d cannot be queried: %v", o.ID, err)
			return
		}
		po := resp.PurchaseOrder
		if int(po.Status) != o.Status {
			w.Fail("C03", "order %d: status %d on chain, model %d", o.ID, po.Status, o.Status)
			return
		}
		if keyOfBech32(po.Purchaser) != o.Purchaser || po.Amount.Amount.BigInt().Cmp(o.Amount) != 0 || po.Amount.Denom != o.Denom {
			w.Fail("C03", "order %d: purchaser/amount changed: %s %s, model %x %s%s", o.ID, po.Purchaser, po.Amount, o.Purchaser, o.Amount, o.Denom)
			return
		}
		if po.RaiseTime != o.RaiseTime || po.CompletionTime != o.CompletionTime {
			w.Fail("C03", "order %d: raise/completion time %d/%d on chain, model %d/%d", o.ID, po.RaiseTime, po.CompletionTime, o.RaiseTime, o.CompletionTime)
			return
		}
		if len(po.Decisions) != len(o.Decisions) {
			w.Fail("C03", "order %d: %d decisions on chain, model %d", o.ID, len(po.Decisions), len(o.Decisions))
			return
		}
		for i, d := range po.Decisions {
			md := o.Decisions[i]
			if keyOfBech32(d.Signer) != md.Signer || (d.Decision == enttypes.StatusAccepted) != md.Accept || d.DecisionTime != md.Time {
				w.Fail("C03", "order %d: decision %d differs: chain %v, model %+v", o.ID, i, d, md)
				return
			}
		}
	}
	// no order exists that the model does not know (ids beyond the model's counter)
	var resp enttypes.QueryEnterpriseUndPurchaseOrderResponse
	if err := w.C.Query(qEnt+"EnterpriseUndPurchaseOrder", &enttypes.QueryEnterpriseUndPurchaseOrderRequest{PurchaseOrderId: w.Ent.NextID}, &resp); err == nil {
		w.Fail("C03", "order %d exists on chain but was never raised in the model", w.Ent.NextID)
	}
}

type c05Pend struct {
	purchaser string
	amt       *big.Int
	denom     string
}

// ---------------------------------------------------------------- C02

type c02State struct {
	supplyBefore sdk.Coins
	mints, burns sdk.Coins
	acceptedAmts []string
	acceptedIDs  []uint64
	beginMints   []string
}

func parseEvents(w *World, evs []abci.Event, st *c02State, phase string) {
	for _, e := range evs {
		if e.Type != "coinbase" && e.Type != "burn" {
			continue
		}
		var amt, who string
		for _, a := range e.Attributes {
			switch a.Key {
			case "amount":
				amt = a.Value
			case "minter", "burner":
				who = a.Value
			}
		}
		coins, err := sdk.ParseCoinsNormalized(amt)
		if err != nil {
			w.Fail("C02", "unparsable %s event amount %q", e.Type, amt)
			continue
		}
		if e.Type == "coinbase" {
			st.mints = st.mints.Add(coins...)
			if phase != "begin" {
				w.Fail("C02", "coins minted (%s by %s) during %s: only order completion in begin-block may mint", amt, who, phase)
			} else {
				if who != w.addrName("enterprise-escrow").Bytes.String() {
					w.Fail("C02", "coins minted by %s, not by the enterprise module", who)
				}
				st.beginMints = append(st.beginMints, coins.String())
			}
		} else {
			st.burns = st.burns.Add(coins...)
			// protocol burns: governance deposits, staking pools (slashing), IBC vouchers - the module accounts that hold
			// the burner permission in this application; nothing else may destroy coins
			ok := false
			for _, m := range []string{"gov", "bonded_tokens_pool", "not_bonded_tokens_pool", "transfer"} {
				if who == lab.ModuleAddr(m).String() {
					ok = true
				}
			}
			if !ok {
				w.Fail("C02", "coins burned (%s) by %s during %s: not one of the protocol's burners (governance deposits, staking pools, IBC transfer)", amt, who, phase)
			}
		}
	}
}

func (w *World) addrName(name string) Addr {
	for _, a := range w.Book {
		if a.Name == name {
			return a
		}
	}
	panic("no address " + name)
}

func init() {
	register(Hooks{
		Prop: "C02",
		BeforeBegin: func(w *World, now time.Time) {
			ctx := w.C.Ctx()
			st := &c02State{}
			w.C.App.BankKeeper.IterateTotalSupply(ctx, func(c sdk.Coin) bool {
				st.supplyBefore = st.supplyBefore.Add(c)
				return false
			})
			k := w.C.App.EnterpriseKeeper
			for _, id := range k.GetAllAcceptedPurchaseOrders(ctx) {
				po, ok := k.GetPurchaseOrder(ctx, id)
				if ok && po.Status == enttypes.StatusAccepted && po.Amount.IsPositive() {
					st.acceptedIDs = append(st.acceptedIDs, id)
				}
			}
			w.Notes["c02"] = st
		},
		AfterBegin: func(w *World, resp abci.ResponseBeginBlock) {
			st := w.Notes["c02"].(*c02State)
			parseEvents(w, resp.Events, st, "begin")
			// the orders that completed in this block: accepted before it, completed after it
			{
				ctx := w.C.Ctx()
				k := w.C.App.EnterpriseKeeper
				for _, id := range st.acceptedIDs {
					if po, ok := k.GetPurchaseOrder(ctx, id); ok && po.Status == enttypes.StatusCompleted {
						st.acceptedAmts = append(st.acceptedAmts, sdk.NewCoins(po.Amount).String())
					} else {
						w.Class("c02.accepted-order-not-completed-in-next-block")
					}
				}
			}
			a := append([]string{}, st.acceptedAmts...)
			b := append([]string{}, st.beginMints...)
			sort.Strings(a)
			sort.Strings(b)
			if strings.Join(a, "|") != strings.Join(b, "|") {
				w.Fail("C02", "begin-block minted %v but the orders completing in this block amount to %v", b, a)
			}
			if len(a) > 0 {
				w.Class("c02.block-with-completion")
			}
			w.Notes["c02.completionInBlock"] = len(a) > 0
		},
		AfterTx: func(w *World, bt *BuiltTx) {
			if !bt.Delivered {
				return
			}
			st := w.Notes["c02"].(*c02State)
			var raw []abci.Event
			for _, e := range bt.Events {
				ev := abci.Event{Type: e.Type}
				for k, v := range e.Attrs {
					ev.Attributes = append(ev.Attributes, abci.EventAttribute{Key: k, Value: v})
				}
				raw = append(raw, ev)
			}
			parseEvents(w, raw, st, "deliver")
			if bt.OK && w.Notes["c02.completionInBlock"] == false {
				for _, o := range bt.Ops {
					if o.Module != "ent" {
						w.Class("c02.nonent-ok-in-block-without-completion")
						break
					}
				}
			}
		},
		AfterEnd: func(w *World, resp abci.ResponseEndBlock) {
			st := w.Notes["c02"].(*c02State)
			parseEvents(w, resp.Events, st, "end")
			if !st.burns.IsZero() {
				w.Class("c02.burn")
			}
		},
		AfterCommit: func(w *World) {
			st := w.Notes["c02"].(*c02State)
			ctx := w.C.Ctx()
			var after sdk.Coins
			w.C.App.BankKeeper.IterateTotalSupply(ctx, func(c sdk.Coin) bool {
				after = after.Add(c)
				return false
			})
			// delta supply = mints - burns, per denomination
			want := st.supplyBefore.Add(st.mints...)
			wantAfter, neg := want.SafeSub(st.burns...)
			if neg || !wantAfter.IsEqual(after) {
				w.Fail("C02", "supply changed from %s to %s but the block's mint events are %s and burn events %s", st.supplyBefore, after, st.mints, st.burns)
				return
			}
			// sum of balances = supply (the bank's own invariant, evaluated here because the suite never runs it)
			func() {
				defer func() {
					if r := recover(); r != nil {
						w.Fail("C02", "bank total-supply invariant panicked: %v", r)
					}
				}()
				if msg, broken := bankkeeper.TotalSupply(w.C.App.BankKeeper)(ctx); broken {
					w.Fail("C02", "sum of balances != supply: %s", msg)
				}
			}()
			// a genesis document exported from this state (either export mode) carries this supply: exporting mints and
			// burns nothing. Looked at while an order waits in the accepted queue (at most three times per history).
			n, _ := w.Notes["c02.exports"].(int)
			if n < 3 && len(w.C.App.EnterpriseKeeper.GetAllAcceptedPurchaseOrders(ctx)) > 0 && !w.stop() {
				w.Notes["c02.exports"] = n + 1
				for i, export := range []func() ([]byte, error){w.C.Export, w.C.ExportZeroHeight} {
					mode := []string{"export", "export for zero height"}[i]
					doc, err := export()
					if err != nil {
						continue // C15's subject
					}
					var g struct {
						Bank struct {
							Supply sdk.Coins `json:"supply"`
						} `json:"bank"`
					}
					if json.Unmarshal(doc, &g) != nil {
						continue
					}
					w.Class("c02.exported-supply-compared")
					if !g.Bank.Supply.IsEqual(after) {
						w.Fail("C02", "the %s of a state with supply %s (an accepted order is queued) carries the supply %s", mode, after, g.Bank.Supply)
						return
					}
				}
			}
		},
	})
}

// ---------------------------------------------------------------- C04

func bookSums(w *World, ctx sdk.Context) (locked, spent *big.Int, lockedBy, spentBy map[string]*big.Int) {
	k := w.C.App.EnterpriseKeeper
	locked, spent = new(big.Int), new(big.Int)
	lockedBy, spentBy = map[string]*big.Int{}, map[string]*big.Int{}
	for _, l := range k.GetAllLockedUnds(ctx) {
		locked.Add(locked, l.Amount.Amount.BigInt())
		lockedBy[keyOfBech32(l.Owner)] = l.Amount.Amount.BigInt()
	}
	for _, s := range k.GetAllSpentEFUNDs(ctx) {
		spent.Add(spent, s.Amount.Amount.BigInt())
		spentBy[keyOfBech32(s.Owner)] = s.Amount.Amount.BigInt()
	}
	return
}

func escrowBalance(w *World, ctx sdk.Context) sdk.Coins {
	return w.C.App.BankKeeper.GetAllBalances(ctx, w.addrName("enterprise-escrow").Bytes)
}

func init() {
	register(Hooks{
		Prop: "C04",
		BeforeBegin: func(w *World, now time.Time) {
			w.Notes["c04.escrow"] = escrowBalance(w, w.C.Ctx())
		},
		AfterBegin: func(w *World, _ abci.ResponseBeginBlock) {
			// escrow grows in begin-block exactly by the completed amounts (model-independent: from order statuses)
			w.Notes["c04.escrowAfterBegin"] = escrowBalance(w, w.C.Ctx())
		},
		BeforeTx: func(w *World, bt *BuiltTx) {
			if bt.Tx.Check {
				return
			}
			bt.Snap["c04.escrow"] = escrowBalance(w, w.C.Ctx())
			bt.Snap["c04.lockedPayer"] = lockedOf(w, w.C.Ctx(), bt.Payer)
		},
		AfterTx: func(w *World, bt *BuiltTx) {
			if !bt.Delivered {
				return
			}
			before := bt.Snap["c04.escrow"].(sdk.Coins)
			after := escrowBalance(w, w.C.Ctx())
			topLevelFeeOp := bt.HasTopLevelFeeOp()
			lockedBefore := bt.Snap["c04.lockedPayer"].(*big.Int)
			lockedAfter := lockedOf(w, w.C.Ctx(), bt.Payer)
			unlocked := new(big.Int).Sub(lockedBefore, lockedAfter)
			diff, neg := before.SafeSub(after...)
			switch {
			case before.IsEqual(after):
				if unlocked.Sign() != 0 {
					w.Fail("C04", "payer's locked eFUND moved by %s but the escrow balance did not", unlocked)
				}
			case !topLevelFeeOp:
				w.Fail("C04", "escrow balance changed from %s to %s in a transaction without a WRKChain/BEACON message", before, after)
			case neg:
				w.Fail("C04", "escrow balance grew from %s to %s in a transaction", before, after)
			default:
				want := sdk.NewCoins(sdk.NewCoin(w.Ent.P.Denom, sdk.NewIntFromBigInt(unlocked)))
				if !diff.IsEqual(want) {
					w.Fail("C04", "escrow debited by %s but the payer's locked eFUND fell by %s", diff, unlocked)
				}
				if unlocked.Cmp(lockedBefore) < 0 && unlocked.Sign() > 0 {
					w.Class("c04.partial-unlock")
				}
				if !bt.OK {
					w.Class("c04.failed-fee-paying-tx")
				}
			}
			if !bt.OK && topLevelFeeOp && lockedBefore.Sign() > 0 {
				w.Class("c04.failed-tx-locked-payer")
			}
			for _, o := range bt.Ops {
				if o.Op.Kind == BankSend && o.StreamR.Name == "enterprise-escrow" {
					w.Class("c04.send-to-escrow")
					if bt.OK {
						w.Fail("C04", "a user transfer credited the enterprise escrow account")
					}
				}
			}
		},
		AfterCommit: func(w *World) { c04Books(w) },
	})
}

func c04Books(w *World) {
	ctx := w.C.Ctx()
	denom := w.Ent.P.Denom
	bal := escrowBalance(w, ctx)
	var tl enttypes.QueryTotalLockedResponse
	if err := w.C.Query(qEnt+"TotalLocked", &enttypes.QueryTotalLockedRequest{}, &tl); err != nil {
		w.Fail("C04", "TotalLocked query failed: %v", err)
		return
	}
	var ts enttypes.QueryTotalSpentEFUNDResponse
	if err := w.C.Query(qEnt+"TotalSpentEFUND", &enttypes.QueryTotalSpentEFUNDRequest{}, &ts); err != nil {
		w.Fail("C04", "TotalSpentEFUND query failed: %v", err)
		return
	}
	locked, spent, lockedBy, spentBy := bookSums(w, ctx)
	tlc := sdk.NewCoins(tl.Amount)
	if !bal.IsEqual(tlc) {
		w.Fail("C04", "escrow balance %s != reported total locked %s", bal, tl.Amount)
		return
	}
	if tl.Amount.Amount.BigInt().Cmp(locked) != 0 {
		w.Fail("C04", "reported total locked %s != sum of per-account locked %s", tl.Amount, locked)
		return
	}
	if ts.Amount.Amount.BigInt().Cmp(spent) != 0 {
		w.Fail("C04", "reported total spent %s != sum of per-account spent %s", ts.Amount, spent)
		return
	}
	if tl.Amount.Denom != denom && !tl.Amount.IsZero() {
		w.Fail("C04", "total locked kept in %s but the enterprise denomination is %s", tl.Amount.Denom, denom)
	}
	// per-account queries agree with the listing, and locked+spent = completed purchases
	completed := map[string]*big.Int{}
	for _, po := range w.C.App.EnterpriseKeeper.GetAllPurchaseOrders(ctx) {
		if po.Status == enttypes.StatusCompleted {
			k := keyOfBech32(po.Purchaser)
			if completed[k] == nil {
				completed[k] = new(big.Int)
			}
			completed[k].Add(completed[k], po.Amount.Amount.BigInt())
		}
	}
	keys := map[string]bool{}
	for k := range lockedBy {
		keys[k] = true
	}
	for k := range spentBy {
		keys[k] = true
	}
	for k := range completed {
		keys[k] = true
	}
	for _, a := range w.Book {
		keys[a.Key()] = true
	}
	for k := range keys {
		l, s, c := lockedBy[k], spentBy[k], completed[k]
		if l == nil {
			l = new(big.Int)
		}
		if s == nil {
			s = new(big.Int)
		}
		if c == nil {
			c = new(big.Int)
		}
		addr := sdk.AccAddress(k).String()
		var lr enttypes.QueryLockedUndByAddressResponse
		if err := w.C.Query(qEnt+"LockedUndByAddress", &enttypes.QueryLockedUndByAddressRequest{Owner: addr}, &lr); err != nil {
			w.Fail("C04", "LockedUndByAddress(%s) failed: %v", addr, err)
			return
		}
		var sr enttypes.QuerySpentEFUNDByAddressResponse
		if err := w.C.Query(qEnt+"SpentEFUNDByAddress", &enttypes.QuerySpentEFUNDByAddressRequest{Address: addr}, &sr); err != nil {
			w.Fail("C04", "SpentEFUNDByAddress(%s) failed: %v", addr, err)
			return
		}
		if lr.Amount.Amount.BigInt().Cmp(l) != 0 || sr.Amount.Amount.BigInt().Cmp(s) != 0 {
			w.Fail("C04", "per-account queries for %s give locked %s spent %s, the listings %s / %s", addr, lr.Amount, sr.Amount, l, s)
			return
		}
		if new(big.Int).Add(l, s).Cmp(c) != 0 {
			w.Fail("C04", "account %s: locked %s + spent %s != completed purchase orders %s", addr, l, s, c)
			return
		}
		if c.Sign() > 0 {
			w.Class("c04.account-with-completed-order")
		}
	}
	func() {
		defer func() {
			if r := recover(); r != nil {
				w.Fail("C04", "enterprise module-account invariant panicked: %v", r)
			}
		}()
		if msg, broken := entkeeper.ModuleAccountInvariant(w.C.App.EnterpriseKeeper)(ctx); broken {
			w.Fail("C04", "registered invariant enterprise/module-account broken: %s", msg)
		}
	}()
}

// ---------------------------------------------------------------- C05

type acctSnap struct {
	locked, spent *big.Int
	spendable     sdk.Coins
}

func snapAll(w *World, ctx sdk.Context) map[string]acctSnap {
	out := map[string]acctSnap{}
	for _, a := range w.Book {
		out[a.Key()] = acctSnap{locked: lockedOf(w, ctx, a), spent: spentOf(w, ctx, a), spendable: w.C.App.BankKeeper.SpendableCoins(ctx, a.Bytes)}
	}
	return out
}

func init() {
	register(Hooks{
		Prop: "C05",
		BeforeBegin: func(w *World, now time.Time) {
			ctx := w.C.Ctx()
			w.Notes["c05.snap"] = snapAll(w, ctx)
			k := w.C.App.EnterpriseKeeper
			var ps []c05Pend
			for _, id := range k.GetAllAcceptedPurchaseOrders(ctx) {
				po, ok := k.GetPurchaseOrder(ctx, id)
				if ok && po.Status == enttypes.StatusAccepted {
					ps = append(ps, c05Pend{keyOfBech32(po.Purchaser), po.Amount.Amount.BigInt(), po.Amount.Denom})
				}
			}
			w.Notes["c05.pending"] = ps
			_ = ps
		},
		AfterBegin: func(w *World, _ abci.ResponseBeginBlock) {
			before := w.Notes["c05.snap"].(map[string]acctSnap)
			after := snapAll(w, w.C.Ctx())
			// purchasers whose orders complete in this block
			k := w.C.App.EnterpriseKeeper
			_ = k
			credited := map[string]bool{}
			for _, a := range w.Book {
				if after[a.Key()].locked.Cmp(before[a.Key()].locked) > 0 {
					credited[a.Key()] = true
				}
			}
			// ... and the purchasers of the orders that were queued for completion when the block began, whether or not
			// their locked balance moved (a completion that credits spendable coins instead of locked ones)
			if ps, ok := w.Notes["c05.pending"].([]c05Pend); ok {
				for _, p := range ps {
					credited[p.purchaser] = true
				}
			}
			// what was recorded as spent stays recorded: no block hook moves the spent books
			for _, a := range w.Book {
				if b, af := before[a.Key()].spent, after[a.Key()].spent; b != nil && af != nil && b.Cmp(af) != 0 {
					w.Fail("C05", "begin-block changed the spent eFUND recorded for %s from %s to %s (only a fee-paying WRKChain/BEACON transaction records spending)", a.Name, b, af)
					return
				}
			}
			for _, a := range w.Book {
				if !credited[a.Key()] {
					continue
				}
				w.Class("c05.completion")
				if a.Acct != nil && a.Acct.Kind != 0 {
					w.Class("c05.completion-vesting-purchaser")
				}
				b, af := before[a.Key()].spendable, after[a.Key()].spendable
				if !b.IsEqual(af) {
					if af.IsAnyGT(b) {
						sig := ""
						if a.Acct != nil && a.Acct.Kind != 0 {
							sig = "C05/vesting-purchaser-spendable"
						}
						if sig != "" {
							w.FailSig("C05", sig, "completing an order raised the spendable balance of %s (account kind %d) from %s to %s", a.Name, a.Acct.Kind, b, af)
						} else {
							w.Fail("C05", "completing an order raised the spendable balance of %s from %s to %s", a.Name, b, af)
						}
						return
					}
				}
			}
		},
		BeforeTx: func(w *World, bt *BuiltTx) {
			if bt.Tx.Check {
				return
			}
			bt.Snap["c05"] = snapAll(w, w.C.Ctx())
		},
		AfterTx: func(w *World, bt *BuiltTx) {
			if !bt.Delivered {
				return
			}
			before := bt.Snap["c05"].(map[string]acctSnap)
			after := snapAll(w, w.C.Ctx())
			// "contains a WRKChain or BEACON message": as a message of the transaction itself. A message only nested in an
			// authorisation wrapper does not count - "no other message type (... authorisations) can move locked eFUND"
			contains := bt.HasTopLevelFeeOp()
			feeAmt := bt.Fee.AmountOf(w.Ent.P.Denom).BigInt()
			if before[bt.Payer.Key()].locked.Sign() > 0 {
				w.Class("c05.payer-with-locked")
				if contains && bt.HasTopLevelFeeOp() {
					w.Class("c05.feeop-by-locked-payer")
				}
			}
			for _, a := range w.Book {
				b, af := before[a.Key()], after[a.Key()]
				dl := new(big.Int).Sub(af.locked, b.locked)
				ds := new(big.Int).Sub(af.spent, b.spent)
				if dl.Sign() == 0 && ds.Sign() == 0 {
					continue
				}
				if !bt.AntePassed {
					w.Fail("C05", "transaction rejected before execution changed locked/spent of %s by %s/%s", a.Name, dl, ds)
					return
				}
				if a.Key() != bt.Payer.Key() {
					w.Fail("C05", "locked/spent eFUND of %s (not the fee payer) moved by %s/%s", a.Name, dl, ds)
					return
				}
				if !contains {
					w.Fail("C05", "locked eFUND of the payer moved by %s in a transaction without any WRKChain/BEACON message", dl)
					return
				}
				want := new(big.Int).Set(feeAmt)
				if b.locked.Cmp(want) < 0 {
					want.Set(b.locked)
				}
				if new(big.Int).Neg(dl).Cmp(want) != 0 {
					w.Fail("C05", "payer's locked eFUND fell by %s, expected min(fee %s, locked %s) = %s", new(big.Int).Neg(dl), feeAmt, b.locked, want)
					return
				}
				if ds.Cmp(want) != 0 {
					w.Fail("C05", "unlocked %s but recorded %s as spent", want, ds)
					return
				}
				if b.locked.Cmp(feeAmt) >= 0 {
					w.Class("c05.unlock-fee-le-locked")
				} else {
					w.Class("c05.unlock-all-locked")
				}
			}
		},
	})
}
