package sim

import (
	"fmt"
	"os"
	"math/big"

	sdk "github.com/cosmos/cosmos-sdk/types"

	beacontypes "github.com/unification-com/mainchain/x/beacon/types"
	wrkchaintypes "github.com/unification-com/mainchain/x/wrkchain/types"

	"verifharness/lab"
)

type regObs struct {
	found               bool
	id                  uint64
	fields              []string
	owner               string
	regTime             uint64
	last, num, lowest   uint64
	err                 error
}

type recObs struct {
	found  bool
	key    uint64
	fields []string
	time   uint64
}

type storObs struct {
	found                       bool
	limit, used, max, maxPurch  uint64
}

// observations go through the modules' gRPC query servers on the in-block state
func obsReg(w *World, ctx sdk.Context, beacon bool, id uint64) regObs {
	c := sdk.WrapSDKContext(ctx)
	if beacon {
		r, err := w.C.App.BeaconKeeper.Beacon(c, &beacontypes.QueryBeaconRequest{BeaconId: id})
		if err != nil || r.Beacon == nil {
			return regObs{err: err}
		}
		b := r.Beacon
		return regObs{found: true, id: b.BeaconId, fields: []string{b.Moniker, b.Name}, owner: b.Owner, regTime: b.RegTime, last: b.LastTimestampId, num: b.NumInState, lowest: b.FirstIdInState}
	}
	r, err := w.C.App.WrkchainKeeper.WrkChain(c, &wrkchaintypes.QueryWrkChainRequest{WrkchainId: id})
	if err != nil || r.Wrkchain == nil {
		return regObs{err: err}
	}
	x := r.Wrkchain
	return regObs{found: true, id: x.WrkchainId, fields: []string{x.Moniker, x.Name, x.Genesis, x.Type}, owner: x.Owner, regTime: x.RegTime, last: x.Lastblock, num: x.NumBlocks, lowest: x.LowestHeight}
}

func obsRec(w *World, ctx sdk.Context, beacon bool, id, key uint64) recObs {
	c := sdk.WrapSDKContext(ctx)
	if beacon {
		r, err := w.C.App.BeaconKeeper.BeaconTimestamp(c, &beacontypes.QueryBeaconTimestampRequest{BeaconId: id, TimestampId: key})
		if err != nil || r.Timestamp == nil {
			return recObs{}
		}
		return recObs{found: true, key: r.Timestamp.TimestampId, fields: []string{r.Timestamp.Hash}, time: r.Timestamp.SubmitTime}
	}
	r, err := w.C.App.WrkchainKeeper.WrkChainBlock(c, &wrkchaintypes.QueryWrkChainBlockRequest{WrkchainId: id, Height: key})
	if err != nil || r.Block == nil {
		return recObs{}
	}
	b := r.Block
	return recObs{found: true, key: b.Height, fields: []string{b.Blockhash, b.Parenthash, b.Hash1, b.Hash2, b.Hash3}, time: b.SubTime}
}

func obsStorage(w *World, ctx sdk.Context, beacon bool, id uint64) storObs {
	c := sdk.WrapSDKContext(ctx)
	if beacon {
		r, err := w.C.App.BeaconKeeper.BeaconStorage(c, &beacontypes.QueryBeaconStorageRequest{BeaconId: id})
		if err != nil {
			return storObs{}
		}
		return storObs{true, r.CurrentLimit, r.CurrentUsed, r.Max, r.MaxPurchasable}
	}
	r, err := w.C.App.WrkchainKeeper.WrkChainStorage(c, &wrkchaintypes.QueryWrkChainStorageRequest{WrkchainId: id})
	if err != nil {
		return storObs{}
	}
	return storObs{true, r.CurrentLimit, r.CurrentUsed, r.Max, r.MaxPurchasable}
}

func eqStrs(a, b []string) bool {
	if len(a) != len(b) {
		return false
	}
	for i := range a {
		if a[i] != b[i] {
			return false
		}
	}
	return true
}

func modName(beacon bool) string {
	if beacon {
		return "BEACON"
	}
	return "WRKChain"
}

// regCompare checks every registration and every record ever accepted against
// the model; each assertion is attributed to exactly one of C07 / C08 / C09.
func regCompare(w *World, m *RegModel) {
	ctx := w.C.Ctx()
	mn := modName(m.Beacon)
	for _, r := range m.Regs {
		o := obsReg(w, ctx, m.Beacon, r.ID)
		if w.On("C09") {
			if !o.found {
				w.Fail("C09", "%s %d is registered in the model but cannot be queried (%v)", mn, r.ID, o.err)
				return
			}
			if o.id != r.ID || !eqStrs(o.fields, r.Fields) || keyOfBech32(o.owner) != r.Owner || o.regTime != r.RegTime {
				w.Fail("C09", "%s %d metadata changed: chain id=%d fields=%q owner=%s regtime=%d; registered fields=%q owner=%s regtime=%d", mn, r.ID, o.id, o.fields, o.owner, o.regTime, r.Fields, r.OwnerStr, r.RegTime)
				return
			}
		}
		if !o.found {
			continue
		}
		ret := r.Retained()
		if w.On("C07") || w.On("C08") {
			for _, rec := range r.Records {
				ro := obsRec(w, ctx, m.Beacon, r.ID, rec.Key)
				if rec.Pruned {
					if ro.found && w.On("C08") {
						w.Fail("C08", "%s %d record %d should have been pruned (limit %s, %d recorded) but is still retrievable", mn, r.ID, rec.Key, r.Limit, r.Total)
						return
					}
					continue
				}
				if !ro.found {
					// a record the model retains is gone: pruned too early (C08) — unless it was altered/deleted by someone (C07 covers content)
					if w.On("C08") {
						w.Fail("C08", "%s %d record %d is among the newest min(total %d, limit %s) but is not retrievable", mn, r.ID, rec.Key, r.Total, r.Limit)
						return
					}
					if w.On("C07") {
						w.Fail("C07", "%s %d record %d was accepted and not pruned by the retention rule but is not retrievable", mn, r.ID, rec.Key)
						return
					}
					continue
				}
				if w.On("C07") && (ro.key != rec.Key || !eqStrs(ro.fields, rec.Fields) || ro.time != rec.Time) {
					w.Fail("C07", "%s %d record %d differs from what was submitted: chain key=%d fields=%q time=%d; submitted fields=%q time=%d", mn, r.ID, rec.Key, ro.key, ro.fields, ro.time, rec.Fields, rec.Time)
					return
				}
			}
		}
		if w.On("C07") && o.last != r.LastKey {
			w.Fail("C07", "%s %d last recorded height/id is %d on chain, %d by submission order", mn, r.ID, o.last, r.LastKey)
			return
		}
		if w.On("C08") {
			lowest := uint64(0)
			if len(ret) > 0 {
				lowest = ret[0].Key
			}
			if o.num != uint64(len(ret)) || o.last != r.LastKey || (len(ret) > 0 && o.lowest != lowest) {
				w.Fail("C08", "%s %d counters (in state %d, lowest %d, last %d) do not match what can be queried (in state %d, lowest %d, last %d)", mn, r.ID, o.num, o.lowest, o.last, len(ret), lowest, r.LastKey)
				return
			}
			so := obsStorage(w, ctx, m.Beacon, r.ID)
			if !so.found {
				w.Fail("C08", "%s %d storage query failed", mn, r.ID)
				return
			}
			if new(big.Int).SetUint64(so.limit).Cmp(r.Limit) != 0 {
				sig := ""
				if !r.Limit.IsUint64() {
					sig = "C08/limit-add-wraps"
				}
				if sig != "" {
					w.FailSig("C08", sig, "%s %d in-state limit is %d on chain, %s by default + successful purchases", mn, r.ID, so.limit, r.Limit)
				} else {
					w.Fail("C08", "%s %d in-state limit is %d on chain, %s by default + successful purchases", mn, r.ID, so.limit, r.Limit)
				}
				return
			}
			if so.used != uint64(len(ret)) || so.max != m.P.MaxLimit {
				w.Fail("C08", "%s %d storage query reports used %d max %d, expected %d / %d", mn, r.ID, so.used, so.max, len(ret), m.P.MaxLimit)
				return
			}
			want := m.MaxPurchasable(r)
			if new(big.Int).SetUint64(so.maxPurch).Cmp(want) != 0 {
				if r.Limit.Cmp(new(big.Int).SetUint64(m.P.MaxLimit)) > 0 {
					w.FailSig("C08", "C08/maxpurchasable-underflow", "%s %d remaining purchasable capacity reported as %d, expected max(0, %d - %s) = %s", mn, r.ID, so.maxPurch, m.P.MaxLimit, r.Limit, want)
				} else {
					w.Fail("C08", "%s %d remaining purchasable capacity reported as %d, expected max(0, %d - %s) = %s", mn, r.ID, so.maxPurch, m.P.MaxLimit, r.Limit, want)
				}
				return
			}
			if r.Limit.Cmp(new(big.Int).SetUint64(m.P.MaxLimit)) > 0 {
				w.Class("c08.limit-above-lowered-max")
			}
		}
	}
	if w.On("C09") {
		// the next identifier is unused
		if o := obsReg(w, ctx, m.Beacon, m.NextID); o.found {
			w.Fail("C09", "%s %d exists although only %d registrations succeeded (identifiers must be assigned sequentially)", mn, m.NextID, len(m.Regs))
		}
	}
}

var regStores = []string{"wrkchain", "beacon"}

func regHooks(prop string) Hooks {
	return Hooks{
		Prop: prop,
		BeforeTx: func(w *World, bt *BuiltTx) {
			if bt.Tx.Check {
				return
			}
			touches := false
			for _, o := range bt.Ops {
				if o.Module == "wrk" || o.Module == "bcn" {
					touches = true
				}
			}
			if touches {
				bt.Snap["reg.digest"] = w.C.Digest(w.C.Ctx(), regStores...)
				if prop == "C08" {
					// in-state limits on chain before the transaction (for "never raised above the maximum in force")
					lim := map[string]uint64{}
					for _, m := range []*RegModel{w.Wrk, w.Bcn} {
						for _, r := range m.Regs {
							if so := obsStorage(w, w.C.Ctx(), m.Beacon, r.ID); so.found {
								lim[fmt.Sprintf("%v/%d", m.Beacon, r.ID)] = so.limit
							}
						}
					}
					bt.Snap["c08.limits"] = lim
				}
			}
		},
		AfterTx: func(w *World, bt *BuiltTx) {
			if !bt.Delivered {
				return
			}
			for _, o := range bt.Ops {
				if o.Module != "wrk" && o.Module != "bcn" {
					continue
				}
				kind := o.Op.Kind
				if bt.OK {
					w.Class(fmt.Sprintf("%s.ok.%s", lower(prop), kind))
				}
				m := w.Wrk
				if o.Module == "bcn" {
					m = w.Bcn
				}
				reg := m.Reg(o.ID)
				switch prop {
				case "C07":
					if kind == WrkRec && reg != nil && o.U64 <= reg.LastKey && reg.Total > 1 && !bt.OK {
						w.Class("c07.overwrite-attempt-after-later-record")
					}
				case "C08":
					if bt.OK && (kind == WrkPur || kind == BcnPur) && reg != nil && reg.Total > 0 {
						w.Class("c08.purchase-between-records")
					}
					if bt.OK && (kind == WrkRec || kind == BcnRec) && reg != nil {
						pruned := 0
						for _, r := range reg.Records {
							if r.Pruned {
								pruned++
							}
						}
						if pruned > 0 {
							w.Class("c08.record-with-prune")
						}
					}
				case "C09":
					if !bt.OK && reg != nil && o.Named.Key() != reg.Owner {
						w.Class("c09.non-owner-attempt")
					}
					// "stores ... the signer as owner": the registered owner is never told that it is not the owner
					if !bt.OK && reg != nil && len(bt.Ops) == 1 && bt.Tx.Wrap == WrapTop && bt.AntePassed && o.Named.Key() == reg.Owner && o.Signer.Key() == reg.Owner && (kind == WrkRec || kind == BcnRec || kind == WrkPur || kind == BcnPur) {
						notOwner := (bt.Res.Codespace == wrkchaintypes.ErrNotWrkChainOwner.Codespace() && bt.Res.Code == wrkchaintypes.ErrNotWrkChainOwner.ABCICode()) ||
							(bt.Res.Codespace == beacontypes.ErrNotBeaconOwner.Codespace() && bt.Res.Code == beacontypes.ErrNotBeaconOwner.ABCICode())
						if notOwner {
							w.Fail("C09", "%s %d: the account that registered it (%s) is refused as 'not the owner' (%s)", modName(m.Beacon), reg.ID, reg.OwnerStr, short(bt.Log))
							return
						}
						w.Class("c09.owner-op-failed-for-another-reason")
					}
					if bt.OK && (kind == WrkReg || kind == BcnReg) {
						w.Class("c09.registration")
					}
				}
			}
			if lim, ok := bt.Snap["c08.limits"].(map[string]uint64); ok && prop == "C08" {
				for _, m := range []*RegModel{w.Wrk, w.Bcn} {
					for _, r := range m.Regs {
						before, had := lim[fmt.Sprintf("%v/%d", m.Beacon, r.ID)]
						so := obsStorage(w, w.C.Ctx(), m.Beacon, r.ID)
						if had && so.found && so.limit > before && so.limit > m.P.MaxLimit {
							w.Fail("C08", "%s %d: this transaction raised the in-state limit from %d to %d, above the maximum in force (%d)", modName(m.Beacon), r.ID, before, so.limit, m.P.MaxLimit)
							return
						}
					}
				}
			}
			if d, ok := bt.Snap["reg.digest"]; ok && !bt.OK {
				after := w.C.Digest(w.C.Ctx(), regStores...)
				if after != d.([32]byte) {
					// attribute: rejected record -> C07; other rejected attempts -> C09
					isRec := false
					for _, o := range bt.Ops {
						if o.Op.Kind == WrkRec || o.Op.Kind == BcnRec {
							isRec = true
						}
					}
					if (isRec && prop == "C07") || (!isRec && prop == "C09") {
						w.Fail(prop, "a rejected WRKChain/BEACON transaction (code %d) changed the module state", bt.Res.Code)
					}
				}
			}
			if len(bt.Snap) > 0 || bt.OK {
				regCompare(w, w.Wrk)
				if !w.stop() {
					regCompare(w, w.Bcn)
				}
			}
		},
		AfterCommit: func(w *World) {
			regCompare(w, w.Wrk)
			if !w.stop() {
				regCompare(w, w.Bcn)
			}
		},
		// "every later query", "never change afterwards", "held in state" also hold for a node that was started from
		// an exported state (the way a chain is upgraded): the final state is exported, imported into a fresh chain
		// and compared with the model once more. An import that fails is C15's subject and is skipped here.
		Finish: func(w *World) {
			if w.stop() || w.Diverged || w.C.InBlock || len(w.Wrk.Regs)+len(w.Bcn.Regs) == 0 {
				return
			}
			state, err := w.C.Export()
			if err != nil {
				w.Class(lower(prop) + ".export-failed")
				return
			}
			b, err := lab.ImportAppState(w.S.Gen, lab.NodeOpts{DB: "mem", SkipGenesisInv: true}, state, w.C.Now)
			if err != nil {
				w.Class(lower(prop) + ".import-failed")
				if os.Getenv("VERIF_DEBUG_IMPORT") != "" {
					fmt.Println("IMPORT-FAILED:", short(err.Error()))
				}
				return
			}
			defer b.Close()
			orig := w.C
			w.C = b
			n := len(w.Findings)
			regCompare(w, w.Wrk)
			if !w.stop() {
				regCompare(w, w.Bcn)
			}
			w.C = orig
			for i := n; i < len(w.Findings); i++ {
				w.Findings[i].Msg = "on a chain started from the exported final state: " + w.Findings[i].Msg
			}
			w.Class(lower(prop) + ".checked-after-export-import")
		},
	}
}

func lower(s string) string {
	b := []byte(s)
	for i, c := range b {
		if c >= 'A' && c <= 'Z' {
			b[i] = c + 32
		}
	}
	return string(b)
}

func init() {
	register(regHooks("C07"))
	register(regHooks("C08"))
	register(regHooks("C09"))
}
