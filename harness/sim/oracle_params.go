package sim

import (
	"fmt"

	sdk "github.com/cosmos/cosmos-sdk/types"
	"math/big"
	"regexp"
	"strings"

	"github.com/cosmos/cosmos-sdk/types/bech32"

	beacontypes "github.com/unification-com/mainchain/x/beacon/types"
	enttypes "github.com/unification-com/mainchain/x/enterprise/types"
	streamtypes "github.com/unification-com/mainchain/x/stream/types"
	wrkchaintypes "github.com/unification-com/mainchain/x/wrkchain/types"
)

// C16: stored parameters always satisfy their validity rules (independent
// predicates below), an update with any invalid field is rejected as a whole,
// and after a successful update behaviour follows the new values only.

var denomRe = regexp.MustCompile(`^[a-zA-Z][a-zA-Z0-9/:._-]{2,127}$`)

func wellFormedUndAddr(s string) bool {
	hrp, bz, err := bech32.DecodeAndConvert(s)
	return err == nil && hrp == "und" && len(bz) > 0 && len(bz) <= 255
}

func validEnt(p enttypes.Params) string {
	if !denomRe.MatchString(p.Denom) {
		return "denomination not well-formed"
	}
	if p.MinAccepts == 0 {
		return "minimum accepts is zero"
	}
	if p.DecisionTimeLimit == 0 {
		return "decision time limit is zero"
	}
	if p.EntSigners == "" {
		return "no signers"
	}
	n := uint64(0)
	for _, s := range strings.Split(p.EntSigners, ",") {
		if !wellFormedUndAddr(s) {
			return fmt.Sprintf("signer %q is not a well-formed address", s)
		}
		n++
	}
	if n < p.MinAccepts {
		return "fewer signers than minimum accepts"
	}
	return ""
}

func validReg(denom string, feeReg, feeRec, feePur, def, max uint64) string {
	switch {
	case !denomRe.MatchString(denom):
		return "denomination not well-formed"
	case feeReg == 0 || feeRec == 0 || feePur == 0:
		return "a fee is zero"
	case def == 0 || max == 0:
		return "a storage limit is zero"
	case def > max:
		return "default storage limit above the maximum"
	}
	return ""
}

func validStream(p streamtypes.Params) string {
	if p.ValidatorFee.IsNil() {
		return "validator fee is nil"
	}
	v := p.ValidatorFee.BigInt()
	if v.Sign() < 0 || v.Cmp(bigE18) > 0 {
		return "validator fee outside [0,1]"
	}
	return ""
}

type c16State struct {
	ent  enttypes.Params
	wrk  wrkchaintypes.Params
	bcn  beacontypes.Params
	str  streamtypes.Params
	seen map[uint64]bool
}

func c16Query(w *World) (e enttypes.Params, wk wrkchaintypes.Params, b beacontypes.Params, s streamtypes.Params, err error) {
	var er enttypes.QueryParamsResponse
	if err = w.C.Query(qEnt+"Params", &enttypes.QueryParamsRequest{}, &er); err != nil {
		return
	}
	var wr wrkchaintypes.QueryParamsResponse
	if err = w.C.Query("/mainchain.wrkchain.v1.Query/Params", &wrkchaintypes.QueryParamsRequest{}, &wr); err != nil {
		return
	}
	var br beacontypes.QueryParamsResponse
	if err = w.C.Query("/mainchain.beacon.v1.Query/Params", &beacontypes.QueryParamsRequest{}, &br); err != nil {
		return
	}
	var sr streamtypes.QueryParamsResponse
	if err = w.C.Query(qStr+"Params", &streamtypes.QueryParamsRequest{}, &sr); err != nil {
		return
	}
	return er.Params, wr.Params, br.Params, sr.Params, nil
}

func init() {
	register(Hooks{
		Prop: "C16",
		Init: func(w *World) {
			e, wk, b, s, err := c16Query(w)
			if err != nil {
				w.Fail("C16", "Params queries failed at genesis: %v", err)
				return
			}
			w.Notes["c16"] = &c16State{ent: e, wrk: wk, bcn: b, str: s, seen: map[uint64]bool{}}
		},
		AfterTx: func(w *World, bt *BuiltTx) {
			// "every ... quorum tally ... uses the new values": the signers named by the parameters in force are the
			// authorised ones. A decision or whitelist change by one of them that passed the pre-execution checks and
			// was refused with the SDK's unauthorized error was judged against something else than the stored list.
			if !bt.Delivered || bt.OK || !bt.AntePassed || bt.Tx.Wrap != WrapTop || bt.Tx.Fault != 0 || len(bt.Ops) != 1 {
				return
			}
			o := bt.Ops[0]
			if (o.Op.Kind != EntDecide && o.Op.Kind != EntWL) || o.Named.Key() != o.Signer.Key() {
				return
			}
			if w.Ent.IsSigner(o.Signer.Key()) && bt.Res.Codespace == "sdk" && bt.Res.Code == 4 {
				w.Fail("C16", "%s by %s, a signer named in the enterprise parameters in force (%q), was refused as unauthorised (code 4/sdk): the authorisation check does not use the stored values", o.Op.Kind, o.Signer.Name, w.Ent.P.Raw)
			} else if w.Ent.IsSigner(o.Signer.Key()) {
				w.Class("c16.listed-signer-not-refused-as-unauthorised")
			}
		},
		AfterCommit: func(w *World) {
			st, _ := w.Notes["c16"].(*c16State)
			if st == nil {
				return
			}
			// fold in the proposals that finished in this block
			type probe struct {
				kind string
				oldW wrkchaintypes.Params
				oldB beacontypes.Params
			}
			var probes []probe
			for _, p := range w.Proposals {
				if !p.Done || st.seen[p.ID] {
					continue
				}
				st.seen[p.ID] = true
				msg := w.paramsMsg(&p.Op, w.acct(0))
				invalid := ""
				switch m := msg.(type) {
				case *enttypes.MsgUpdateParams:
					invalid = validEnt(m.Params)
					if p.Passed {
						st.ent = m.Params
					}
				case *wrkchaintypes.MsgUpdateParams:
					invalid = validReg(m.Params.Denom, m.Params.FeeRegister, m.Params.FeeRecord, m.Params.FeePurchaseStorage, m.Params.DefaultStorageLimit, m.Params.MaxStorageLimit)
					if p.Passed {
						probes = append(probes, probe{kind: ParamsWrk, oldW: st.wrk})
						st.wrk = m.Params
					}
				case *beacontypes.MsgUpdateParams:
					invalid = validReg(m.Params.Denom, m.Params.FeeRegister, m.Params.FeeRecord, m.Params.FeePurchaseStorage, m.Params.DefaultStorageLimit, m.Params.MaxStorageLimit)
					if p.Passed {
						probes = append(probes, probe{kind: ParamsBcn, oldB: st.bcn})
						st.bcn = m.Params
					}
				case *streamtypes.MsgUpdateParams:
					if m.Params.ValidatorFee.IsNil() {
						// a nil decimal cannot be expressed on the wire: it is encoded as 0
						m.Params.ValidatorFee = sdk.ZeroDec()
					}
					invalid = validStream(m.Params)
					if p.Passed {
						st.str = m.Params
					}
				}
				if p.Passed {
					w.Class("c16.update-applied")
					if invalid != "" {
						w.Fail("C16", "governance applied an invalid %s structure (%s): %+v", p.Op.Kind, invalid, p.Op.P)
						return
					}
				} else {
					if invalid != "" {
						w.Class("c16.invalid-update-rejected-at-execution")
					} else {
						w.Class("c16.valid-update-not-applied")
					}
				}
			}
			e, wk, b, s, err := c16Query(w)
			if err != nil {
				w.Fail("C16", "Params queries failed: %v", err)
				return
			}
			// "every fee check uses the new values and only the new values" includes the mempool's re-check of what
			// it already holds: registrations admitted at the fee then in force stay pending (never delivered) and are
			// re-checked after every commit; one that is kept must pay the registration fee now in force
			if !c16Mempool(w, wk, b) {
				return
			}
			if msg := validEnt(e); msg != "" {
				w.Fail("C16", "stored enterprise parameters are invalid (%s): %+v", msg, e)
				return
			}
			if msg := validReg(wk.Denom, wk.FeeRegister, wk.FeeRecord, wk.FeePurchaseStorage, wk.DefaultStorageLimit, wk.MaxStorageLimit); msg != "" {
				w.Fail("C16", "stored WRKChain parameters are invalid (%s): %+v", msg, wk)
				return
			}
			if msg := validReg(b.Denom, b.FeeRegister, b.FeeRecord, b.FeePurchaseStorage, b.DefaultStorageLimit, b.MaxStorageLimit); msg != "" {
				w.Fail("C16", "stored BEACON parameters are invalid (%s): %+v", msg, b)
				return
			}
			if msg := validStream(s); msg != "" {
				w.Fail("C16", "stored stream parameters are invalid (%s): %+v", msg, s)
				return
			}
			if e != st.ent {
				w.Fail("C16", "enterprise parameters are %+v, the last successfully applied structure is %+v", e, st.ent)
				return
			}
			if wk != st.wrk {
				w.Fail("C16", "WRKChain parameters are %+v, the last successfully applied structure is %+v", wk, st.wrk)
				return
			}
			if b != st.bcn {
				w.Fail("C16", "BEACON parameters are %+v, the last successfully applied structure is %+v", b, st.bcn)
				return
			}
			if !s.ValidatorFee.Equal(st.str.ValidatorFee) {
				w.Fail("C16", "stream parameters are %+v, the last successfully applied structure is %+v", s, st.str)
				return
			}
			// probes: the fee checks of mempool admission follow the new fees, and only the new ones
			for _, pr := range probes {
				c16FeeProbe(w, pr.kind, pr.oldW, pr.oldB, st)
				if w.stop() {
					return
				}
			}
		},
	})
}

type c16Pending struct {
	bytes  []byte
	beacon bool
	fee    uint64
}

func c16Mempool(w *World, wk wrkchaintypes.Params, b beacontypes.Params) bool {
	if wk.Denom != "nund" || b.Denom != "nund" || wk.FeeRegister >= 1<<62 || b.FeeRegister >= 1<<62 {
		return true
	}
	mp, _ := w.Notes["c16.mempool"].([]c16Pending)
	var keep []c16Pending
	for _, p := range mp {
		r, pan := w.C.ReCheckTx(p.bytes)
		now := wk.FeeRegister
		mod := "WRKChain"
		if p.beacon {
			now, mod = b.FeeRegister, "BEACON"
		}
		if pan != nil || r.Code != 0 {
			if p.fee != now {
				w.Class("c16.recheck-evicted-after-fee-change")
			}
			continue
		}
		if p.fee != now {
			w.Fail("C16", "a pending %s registration offering %dnund is kept by the mempool re-check (CheckTx type Recheck, code 0) although the registration fee in force is now %dnund", mod, p.fee, now)
			return false
		}
		w.Class("c16.recheck-kept")
		keep = append(keep, p)
	}
	if len(keep) < 4 && w.Notes["c16.mempool.busy"] != true {
		w.Notes["c16.mempool.busy"] = true
		beacon := w.C.Height%2 == 0
		kind, fee := WrkReg, wk.FeeRegister
		if beacon {
			kind, fee = BcnReg, b.FeeRegister
		}
		payer := w.NAcc - 1
		t := &Tx{Ops: []Op{{Kind: kind, Actor: payer, Named: -1, Peer: payer}}, Check: true, Fee: FeeSpec{Mode: FeeLiteral, Amt: new(big.Int).SetUint64(fee).String()}}
		if bt := w.RunTx(t); bt != nil && bt.CheckRes != nil && bt.CheckRes.Code == 0 {
			keep = append(keep, c16Pending{bytes: bt.Bytes, beacon: beacon, fee: fee})
		}
		delete(w.Notes, "c16.mempool.busy")
	}
	w.Notes["c16.mempool"] = keep
	return !w.stop()
}

// c16FeeProbe submits a registration to CheckTx with the old and with the new registration fee.
func c16FeeProbe(w *World, kind string, oldW wrkchaintypes.Params, oldB beacontypes.Params, st *c16State) {
	var oldFee, newFee, newRec, newPur uint64
	var oldDenom, newDenom string
	opKind := WrkReg
	if kind == ParamsWrk {
		oldFee, newFee, newRec, newPur, oldDenom, newDenom = oldW.FeeRegister, st.wrk.FeeRegister, st.wrk.FeeRecord, st.wrk.FeePurchaseStorage, oldW.Denom, st.wrk.Denom
	} else {
		opKind = BcnReg
		oldFee, newFee, newRec, newPur, oldDenom, newDenom = oldB.FeeRegister, st.bcn.FeeRegister, st.bcn.FeeRecord, st.bcn.FeePurchaseStorage, oldB.Denom, st.bcn.Denom
	}
	if newDenom != "nund" || oldDenom != "nund" {
		return
	}
	payer := 0 // account 0 is always funded
	mk := func(fee uint64) *BuiltTx {
		t := &Tx{Ops: []Op{{Kind: opKind, Actor: payer, Named: -1, Peer: payer}}, Check: true, Fee: FeeSpec{Mode: FeeLiteral, Amt: new(big.Int).SetUint64(fee).String()}}
		return w.RunTx(t)
	}
	if oldFee != newFee {
		bt := mk(oldFee)
		if bt.CheckRes != nil && bt.CheckRes.Code == 0 {
			w.Fail("C16", "after the %s update (registration fee %d -> %d) a registration offering the old fee is still admitted by CheckTx", kind, oldFee, newFee)
			return
		}
		w.Class("c16.probe-old-fee-rejected")
	}
	if newFee < 1<<63 && newRec < 1<<63 && newPur < 1<<63 {
		bt := mk(newFee)
		if bt.CheckRes != nil && bt.CheckRes.Code != 0 {
			w.Fail("C16", "after the %s update a registration offering exactly the new fee %d is rejected by CheckTx: %s", kind, newFee, short(bt.CheckLog))
			return
		}
		w.Class("c16.probe-new-fee-admitted")
	} else {
		w.Class("c16.fee-above-2^63")
	}
}
