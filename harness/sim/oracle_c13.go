package sim

import (
	"fmt"
	"sort"
	"strings"

	enttypes "github.com/unification-com/mainchain/x/enterprise/types"
)

// C13: a message signed by, or naming, any account other than the party the
// operation belongs to is rejected and leaves module state unchanged.

var customStores = []string{"enterprise", "wrkchain", "beacon", "stream"}

func isCustom(mod string) bool {
	switch mod {
	case "ent", "wrk", "bcn", "str", "params":
		return true
	}
	return false
}

func init() {
	register(Hooks{
		Prop: "C13",
		BeforeTx: func(w *World, bt *BuiltTx) {
			if bt.Tx.Check {
				return
			}
			if bt.Expect.Verdict == MustReject {
				bt.Snap["c13"] = w.C.Dump(w.C.Ctx(), customStores...)
			}
		},
		AfterTx: func(w *World, bt *BuiltTx) {
			if !bt.Delivered {
				return
			}
			custom := false
			for _, o := range bt.Ops {
				if isCustom(o.Module) {
					custom = true
				}
			}
			if !custom {
				return
			}
			if bt.OK && bt.Expect.Verdict != MustReject {
				w.Class("c13.entitled-control-ok")
				for _, o := range bt.Ops {
					w.Class("c13.control." + o.Op.Kind)
				}
				if bt.Tx.Wrap == WrapExec || bt.Tx.Wrap == WrapExec2 {
					w.Class("c13.control-via-grant")
				}
				return
			}
			isC13 := false
			for _, p := range bt.Expect.Props {
				if p == "C13" {
					isC13 = true
				}
			}
			if bt.Expect.Verdict != MustReject || !isC13 {
				return
			}
			w.Class("c13.attempt")
			live := true
			for _, o := range bt.Ops {
				if isCustom(o.Module) && !o.LiveTarget {
					live = false
				}
				w.Class("c13.attempt." + o.Op.Kind)
			}
			if live {
				w.Class("c13.attempt-on-live-target")
			}
			switch {
			case bt.Tx.Fault != 0:
				w.Class("c13.attempt.bad-signature")
			case bt.Tx.Wrap == WrapExec || bt.Tx.Wrap == WrapExec2:
				w.Class("c13.attempt.exec-without-grant")
			}
			for _, o := range bt.Ops {
				if o.Named.Key() != o.Signer.Key() && o.Module != "params" {
					w.Class("c13.attempt.names-other-account")
				}
			}
			// (the result code is judged by World.judge: an accepted attempt is a C13 finding)
			if bt.OK {
				return
			}
			before, ok := bt.Snap["c13"].(map[string]string)
			if !ok {
				return
			}
			after := w.C.Dump(w.C.Ctx(), customStores...)
			var diff []string
			for k, v := range after {
				if before[k] != v {
					diff = append(diff, k)
				}
			}
			for k := range before {
				if _, ok := after[k]; !ok {
					diff = append(diff, k)
				}
			}
			sort.Strings(diff)
			// the one legitimate trace: the fee payer's eFUND unlock when the tx carries a top-level
			// WRKChain/BEACON message and passed the pre-execution stage (that delta is C05's subject)
			legit := map[string]bool{}
			if bt.AntePassed && bt.HasTopLevelFeeOp() {
				for range bt.Ops[:1] {
					{
						p := bt.Payer.Bytes
						for _, ak := range [][]byte{enttypes.LockedUndAddressStoreKey(p), enttypes.SpentEFUNDAddressStoreKey(p), enttypes.TotalLockedUndKey, enttypes.TotalSpentEFUNDKey} {
							legit[fmt.Sprintf("enterprise/%x", ak)] = true
						}
					}
				}
			}
			for _, k := range diff {
				if !legit[k] {
					w.Fail("C13", "a rejected attempt by an unentitled party (%s) changed module state at %s", bt.Expect.Why, strings.Join(trim(diff, 5), ", "))
					return
				}
			}
		},
	})
}
