package sim

import (
	"bytes"
	"encoding/json"
	"fmt"
	"sort"
	"strings"
	"time"

	abci "github.com/cometbft/cometbft/abci/types"
	sdk "github.com/cosmos/cosmos-sdk/types"
	govv1 "github.com/cosmos/cosmos-sdk/x/gov/types/v1"
	"pgregory.net/rapid"

	enttypes "github.com/unification-com/mainchain/x/enterprise/types"

	"verifharness/lab"
)

// C15: export at any height, InitChain a fresh application from it (genesis
// invariants ON, as a node would): must succeed, satisfy every registered
// invariant, give identical state in the four custom modules, export to an
// identical document again, and behave identically under the same subsequent
// transactions.

var c15Modules = []string{"enterprise", "wrkchain", "beacon", "stream"}

func moduleSections(state []byte) (map[string]string, error) {
	var m map[string]json.RawMessage
	if err := json.Unmarshal(state, &m); err != nil {
		return nil, err
	}
	out := map[string]string{}
	for _, k := range c15Modules {
		var buf bytes.Buffer
		if err := json.Compact(&buf, m[k]); err != nil {
			return nil, err
		}
		out[k] = buf.String()
	}
	return out, nil
}

func diffDumps(a, b map[string]string) []string {
	var d []string
	for k, v := range a {
		if b[k] != v {
			d = append(d, k)
		}
	}
	for k := range b {
		if _, ok := a[k]; !ok {
			d = append(d, k)
		}
	}
	sort.Strings(d)
	return d
}

// RunC15 executes one round trip; findings are returned (not attached to a world).
func RunC15(s *Scenario, ev *Evidence, trace bool) (viol []Finding, tr []string) {
	fail := func(sig, format string, args ...interface{}) {
		viol = append(viol, Finding{Prop: "C15", Sig: sig, Msg: fmt.Sprintf(format, args...)})
	}
	w, err := NewWorld(s, lab.NodeOpts{DB: "mem"})
	if err != nil {
		return nil, nil
	}
	defer w.Close()
	w.TraceOn = trace
	split := len(s.Blocks) * 2 / 3
	if split < 1 {
		split = len(s.Blocks)
	}
	for bi := 0; bi < split; bi++ {
		w.BlockIdx = bi
		if !w.RunBlock(&s.Blocks[bi]) {
			return nil, w.Trace // halted / diverged before the export point: not a case for this property
		}
	}
	ctx := w.C.Ctx()
	// classes of the exported state
	k := w.C.App.EnterpriseKeeper
	inflight := len(k.GetAllRaisedPurchaseOrders(ctx))+len(k.GetAllAcceptedPurchaseOrders(ctx)) > 0
	spent := false
	for _, sp := range k.GetAllSpentEFUNDs(ctx) {
		if sp.Amount.IsPositive() {
			spent = true
		}
	}
	pruned := false
	for _, m := range []*RegModel{w.Wrk, w.Bcn} {
		for _, r := range m.Regs {
			for _, rec := range r.Records {
				if rec.Pruned {
					pruned = true
				}
			}
		}
	}
	streams := false
	for _, st := range w.Str.Streams {
		if st.Deposit.Sign() > 0 {
			streams = true
		}
	}
	cls := map[string]bool{"c15.export-with-order-in-flight": inflight, "c15.export-with-spent-efund": spent, "c15.export-with-pruned-registration": pruned, "c15.export-with-funded-stream": streams}
	for c, on := range cls {
		if on {
			w.Class(c)
		}
	}
	nt := inflight && streams && (pruned || spent)
	if ev != nil {
		defer func() {
			ev.AddClasses(w.Classes)
			ev.Eval(s.Hash(), nt)
		}()
	}
	exportHeight := w.C.Height
	stateA, err := w.C.Export()
	if err != nil {
		fail("", "export failed: %v", err)
		return viol, w.Trace
	}
	secA, err := moduleSections(stateA)
	if err != nil {
		fail("", "exported document is not valid JSON: %v", err)
		return viol, w.Trace
	}
	b, err := lab.ImportAppState(s.Gen, lab.NodeOpts{DB: "mem"}, stateA, w.C.Now)
	if err != nil {
		sig := ""
		// predicate: at the export point the governance module account holds coins that are not
		// proposal deposits (somebody transferred coins to it; the address is not blocked)
		if strings.Contains(err.Error(), "expected module account") {
			deposits := sdk.NewCoins()
			w.C.App.GovKeeper.IterateAllDeposits(ctx, func(d govv1.Deposit) bool {
				deposits = deposits.Add(d.Amount...)
				return false
			})
			if bal := w.C.App.BankKeeper.GetAllBalances(ctx, lab.GovAddr()); !bal.IsEqual(deposits) {
				sig = "C15/gov-account-holds-non-deposit-funds"
			}
		}
		viol = append(viol, Finding{Prop: "C15", Sig: sig, Msg: fmt.Sprintf("initialising a fresh chain from the exported state failed: %v", err)})
		return viol, w.Trace
	}
	defer b.Close()
	w.Class("c15.import-ok")
	// every registered invariant holds on the imported chain
	func() {
		defer func() {
			if r := recover(); r != nil {
				msg := fmt.Sprint(r)
				if len(msg) > 400 {
					msg = msg[:400]
				}
				fail("", "a registered invariant is broken on the imported chain: %s", msg)
			}
		}()
		b.App.CrisisKeeper.AssertInvariants(b.Ctx())
	}()
	if len(viol) > 0 {
		return viol, w.Trace
	}
	// same state in the four modules (store level) and an identical document when exported again
	if d := diffDumps(w.C.Dump(w.C.Ctx(), c15Modules...), b.Dump(b.Ctx(), c15Modules...)); len(d) > 0 {
		fail("", "the imported chain's module state differs from the exporting chain's at %s", strings.Join(trim(d, 6), ", "))
		return viol, w.Trace
	}
	stateB, err := b.Export()
	if err != nil {
		fail("", "export of the imported chain failed: %v", err)
		return viol, w.Trace
	}
	secB, _ := moduleSections(stateB)
	for _, m := range c15Modules {
		if secA[m] != secB[m] {
			fail("", "exporting the imported chain gives a different %s document (%d vs %d bytes)", m, len(secA[m]), len(secB[m]))
			return viol, w.Trace
		}
	}
	// the other export mode (und export --for-zero-height) carries the same four modules' state: the preparation for a
	// zero-height genesis touches staking, distribution and slashing only
	if stateZ, err := w.C.ExportZeroHeight(); err != nil {
		fail("", "export for zero height failed: %v", err)
		return viol, w.Trace
	} else if secZ, err := moduleSections(stateZ); err == nil {
		w.Class("c15.export-for-zero-height")
		for _, m := range c15Modules {
			if secA[m] != secZ[m] {
				fail("", "the export for zero height gives a different %s document than the plain export of the same state (%d vs %d bytes)", m, len(secZ[m]), len(secA[m]))
				return viol, w.Trace
			}
		}
		if z, err := lab.ImportAppState(s.Gen, lab.NodeOpts{DB: "mem"}, stateZ, w.C.Now); err != nil {
			fail("", "initialising a fresh chain from the zero-height export failed: %v", err)
			return viol, w.Trace
		} else {
			if d := diffDumps(w.C.Dump(w.C.Ctx(), c15Modules...), z.Dump(z.Ctx(), c15Modules...)); len(d) > 0 {
				fail("", "the chain imported from the zero-height export differs from the exporting chain at %s", strings.Join(trim(d, 6), ", "))
			}
			z.Close()
			if len(viol) > 0 {
				return viol, w.Trace
			}
		}
	}
	// the same subsequent transactions have the same effects on both chains
	w.AddHooks(Hooks{
		Prop: "C15-mirror",
		BeforeBegin: func(w *World, now time.Time) {
			if _, pan := b.BeginBlockAt(now); pan != nil {
				fail("", "begin-block panicked on the imported chain: %v", pan)
				w.Diverged = true
			}
		},
		AfterTx: func(w *World, bt *BuiltTx) {
			if !bt.Delivered {
				return
			}
			r, pan := b.DeliverTx(bt.Bytes)
			if pan != nil {
				fail("", "DeliverTx panicked on the imported chain: %v", pan)
				w.Diverged = true
				return
			}
			w.Class("c15.continuation-tx")
			if r.Code != bt.Res.Code || r.Codespace != bt.Res.Codespace {
				fail("", "the same transaction gives code %d/%s on the exporting chain and %d/%s on the imported chain (%s)", bt.Res.Code, bt.Res.Codespace, r.Code, r.Codespace, short(r.Log))
				w.Diverged = true
			}
		},
		AfterEnd: func(w *World, _ abci.ResponseEndBlock) {
			if _, pan := b.EndBlock(); pan != nil {
				fail("", "end-block panicked on the imported chain: %v", pan)
				w.Diverged = true
			}
		},
		AfterCommit: func(w *World) {
			if _, pan := b.Commit(); pan != nil {
				fail("", "commit panicked on the imported chain: %v", pan)
				w.Diverged = true
			}
		},
	})
	for bi := split; bi < len(s.Blocks) && len(viol) == 0; bi++ {
		w.BlockIdx = bi
		// BeginBlock on A may complete orders / tally: B's begin-block was run by the mirror just before
		if !w.RunBlock(&s.Blocks[bi]) {
			break
		}
	}
	// "exporting application state at any height": the export of the export point's height, taken now from the
	// database of the chain that has moved on (und export --height N), gives the document that was exported then
	if len(viol) == 0 && !w.Diverged && !w.C.InBlock && exportHeight > 0 && w.C.Height > exportHeight {
		if past, err := w.C.ExportAt(exportHeight); err != nil {
			fail("", "export of the past height %d (the chain is at %d) failed: %v", exportHeight, w.C.Height, err)
		} else if secP, err := moduleSections(past); err == nil {
			w.Class("c15.export-of-past-height")
			for _, m := range c15Modules {
				if secA[m] != secP[m] {
					fail("", "exporting height %d later (chain at %d) gives a different %s document than exporting it when it was the head (%d vs %d bytes)", exportHeight, w.C.Height, m, len(secP[m]), len(secA[m]))
					break
				}
			}
		}
	}
	if len(viol) == 0 && !w.Diverged && !b.InBlock && !w.C.InBlock {
		if d := diffDumps(w.C.Dump(w.C.Ctx(), c15Modules...), b.Dump(b.Ctx(), c15Modules...)); len(d) > 0 {
			fail("", "after the same continuation the two chains' module state differs at %s", strings.Join(trim(d, 6), ", "))
		}
	}
	_ = enttypes.ModuleName
	return viol, w.Trace
}

func c15PerCase(rt *rapid.T, s *Scenario, ev *Evidence) []Finding {
	wantTrace := ev.Evaluations < 2
	viol, tr := RunC15(s, ev, wantTrace)
	if wantTrace && len(viol) == 0 && len(tr) > 0 {
		ev.Sample(map[string]interface{}{"export_after_block": len(s.Blocks) * 2 / 3, "history": tr}, 3)
	}
	known := LoadedKnown()
	var out []Finding
	for _, f := range viol {
		if known.Has(f.Sig) {
			ev.Known(f.Sig, fmt.Sprintf("KNOWN-FINDING: property=C15 sig=%s %s", f.Sig, f.Msg))
			dumpKnown("C15", f, s)
			continue
		}
		out = append(out, f)
	}
	return out
}
