package sim

import (
	"encoding/json"
	"fmt"
	"os"
	"path/filepath"
	"testing"
	"time"

	"verifharness/lab"
)

func entWeights() map[string]int {
	return map[string]int{EntRaise: 18, EntDecide: 40, EntWL: 8, WrkReg: 3, WrkRec: 4, BcnReg: 2, BcnRec: 3, BankSend: 3, StrCreate: 2, StrClaim: 1}
}

func mixedWeights() map[string]int {
	return map[string]int{FeeGrantOp: 2, EntRaise: 12, EntDecide: 26, EntWL: 4, WrkReg: 7, WrkRec: 12, WrkPur: 4, BcnReg: 6, BcnRec: 10, BcnPur: 3,
		BankSend: 6, StrCreate: 5, StrClaim: 4, StrTopUp: 2, StrUpdate: 1, StrCancel: 2, StakeDeleg: 1}
}

func c04Weights() map[string]int {
	w := mixedWeights()
	w[StrCreate], w[StrUpdate], w[StrCancel], w[StrTopUp] = 6, 3, 3, 2 // streams towards the escrow and their sender-side settlements
	return w
}

var cfgs = map[string]PropCfg{}

func reg(c PropCfg) PropCfg { cfgs[c.ID] = c; return c }

var cfgC02 = reg(PropCfg{
	ID: "C02",
	Profile: &Profile{PGovRaise: 15, PQuorumConflict: 10, PReimport: 8, Weights: mixedWeights(), PBulk: 14, MinBlocks: 8, MaxBlocks: 40, MaxTxs: 4, MaxOps: 3, PUpper: 5, PActor: 8, PNamed: 2, PFault: 4, PExec: 8,
		PGovParams: 6, PBadRef: 5, Vesting: true, TinyLimits: true, ValidParams: true, LongTime: true, EntDenomChange: true},
	Rule: "history (generated genesis + blocks of signed txs) with >=1 block in which an order completes and >=1 successful non-enterprise tx in a block without completion; distinct by scenario hash",
	NonTrivial: func(w *World) bool {
		return w.Classes["c02.block-with-completion"] > 0 && w.Classes["c02.nonent-ok-in-block-without-completion"] > 0
	},
	MinClasses: map[string]int{"c02.block-with-completion": 5, "c02.burn": 3},
	Assume:     []string{"IBC voucher minting needs a counterparty chain and is not generated", "events of failed transactions are not part of the response; their state is rolled back"},
})

var cfgC03 = reg(PropCfg{
	ID: "C03",
	Profile: &Profile{PGovRaise: 10, PQuorumConflict: 15, PReimport: 8, Weights: entWeights(), PBulk: 12, MinBlocks: 5, MaxBlocks: 35, MaxTxs: 4, MaxOps: 2, PUpper: 15, PActor: 8, PNamed: 1, PFault: 2, PExec: 6,
		PGovParams: 8, PBadRef: 4, ValidParams: true},
	Rule: "history in which >=1 order reaches completed and >=1 reaches rejected, or parameters change while an order is raised/accepted",
	NonTrivial: func(w *World) bool {
		return (w.Classes["c03.completed"] > 0 && w.Classes["c03.rejected"] > 0) || w.Classes["c03.param-change-in-flight"] > 0
	},
	MinClasses: map[string]int{"c03.completed": 5, "c03.rejected": 5, "c03.ok." + EntDecide: 20},
	Assume:     []string{"signer lists in genesis and governance patches contain no duplicate entries (duplicates are C16's subject)", "deadline rule is undecided (either outcome allowed) when elapsed whole seconds == limit"},
})

var cfgC04 = reg(PropCfg{
	ID: "C04",
	Profile: &Profile{PReimport: 8, Weights: c04Weights(), PBulk: 8, PEscrow: 25, LockedActors: true, MultiPct: 20, PGranter: 12, PFeePayer: 8, MinBlocks: 8, MaxBlocks: 40, MaxTxs: 4, MaxOps: 3, PUpper: 5, PActor: 10, PNamed: 2, PFault: 5, PExec: 6,
		PGovParams: 0, PBadRef: 5, Vesting: true, TinyLimits: true, ValidParams: true, FeeModes: []int{FeeExact, FeeExact, FeeExact, FeeLower, FeeHigher, FeeNone, FeeExactPlusExtraDenom, FeeExactPlusExtraDenom}},
	Rule: "history with >=1 completion and >=1 partial unlock (0 < fee < locked) or a failed fee-paying tx of a locked payer",
	NonTrivial: func(w *World) bool {
		return w.Classes["c04.account-with-completed-order"] > 0 && (w.Classes["c04.partial-unlock"] > 0 || w.Classes["c04.failed-tx-locked-payer"] > 0)
	},
	MinClasses: map[string]int{"c04.partial-unlock": 3, "c04.account-with-completed-order": 5},
	Assume:     []string{"the enterprise denomination is not changed by governance in this check (C14 varies it)"},
})

var cfgC05 = reg(PropCfg{
	ID: "C05",
	Profile: &Profile{PReimport: 8, Weights: map[string]int{FeeGrantOp: 3, EntRaise: 14, EntDecide: 28, EntWL: 3, WrkReg: 8, WrkRec: 14, WrkPur: 4, BcnReg: 7, BcnRec: 12, BcnPur: 3, BankSend: 5, StrCreate: 3, StrClaim: 2, StrCancel: 1, StakeDeleg: 1},
		PBulk: 10, MinBlocks: 8, MaxBlocks: 40, MaxTxs: 4, MaxOps: 3, MultiPct: 30, PSameKind: 25, LockedActors: true, PGranter: 12, PFeePayer: 10, PUpper: 5, PActor: 10, PNamed: 3, PFault: 8, PExec: 8,
		PGovParams: 0, PBadRef: 5, Vesting: true, TinyLimits: true, ValidParams: true, FeeModes: []int{FeeExact, FeeExact, FeeExact, FeeLower, FeeHigher, FeeNone, FeeExactPlusExtraDenom}},
	Rule: "history containing >=1 tx whose fee payer has locked eFUND > 0",
	NonTrivial: func(w *World) bool { return w.Classes["c05.payer-with-locked"] > 0 },
	MinClasses: map[string]int{"c05.unlock-fee-le-locked": 3, "c05.completion": 5},
	Assume:     []string{"'passed all pre-execution checks' is observed as: every signer's sequence was incremented"},
})

func regWeights() map[string]int {
	return map[string]int{WrkReg: 8, WrkRec: 30, WrkPur: 9, BcnReg: 6, BcnRec: 24, BcnPur: 7, BankSend: 2, EntRaise: 2, EntDecide: 3}
}

func regProfile() *Profile {
	return &Profile{Weights: regWeights(), PReimport: 4, PMultiTarget: 15, PSameKind: 30, PForward: 50, PRetry: 6, PCheck: 7, GasSweep: true, MultiPct: 18, PExecTail: 12, PBulk: 8, MinBlocks: 6, MaxBlocks: 30, MaxTxs: 5, MaxOps: 3, PUpper: 8, PActor: 10, PNamed: 2, PFault: 2, PExec: 10,
		PGovParams: 7, PBadRef: 5, TinyLimits: true, ValidParams: true, GovKinds: []string{ParamsWrk, ParamsBcn}}
}

var cfgC07 = reg(PropCfg{
	ID: "C07", Profile: regProfile(),
	Rule: "history with >=1 rejected overwrite attempt at or below the last height after a later record exists, and >=2 registrations with records",
	NonTrivial: func(w *World) bool {
		return w.Classes["c07.overwrite-attempt-after-later-record"] > 0 && len(w.Wrk.Regs)+len(w.Bcn.Regs) >= 2
	},
	MinClasses: map[string]int{"c07.ok." + WrkRec: 30, "c07.ok." + BcnRec: 30, "c07.overwrite-attempt-after-later-record": 5},
	Assume:     []string{"every accepted record is re-read after every WRKChain/BEACON transaction and at every commit through the modules' gRPC query servers"},
})

var cfgC08 = reg(PropCfg{
	ID: "C08", Profile: regProfile(),
	Rule: "history with >=1 prune and >=1 purchase between records, or a governance change of the storage limits",
	NonTrivial: func(w *World) bool {
		return (w.Classes["c08.record-with-prune"] > 0 && w.Classes["c08.purchase-between-records"] > 0) || w.Classes["gov.passed."+ParamsWrk]+w.Classes["gov.passed."+ParamsBcn] > 0
	},
	MinClasses: map[string]int{"c08.record-with-prune": 20, "c08.purchase-between-records": 5},
	Assume:     []string{"C08's first sentence is read as the evolution it describes: insert, then drop the single oldest retained record if the count exceeds the current limit"},
})

var cfgC09 = reg(PropCfg{
	ID: "C09", Profile: regProfile(),
	Rule: "history with >=3 registrations by >=2 accounts and >=1 rejected attempt by a non-owner",
	NonTrivial: func(w *World) bool {
		owners := map[string]bool{}
		for _, r := range w.Wrk.Regs {
			owners[r.Owner] = true
		}
		for _, r := range w.Bcn.Regs {
			owners[r.Owner] = true
		}
		return len(w.Wrk.Regs)+len(w.Bcn.Regs) >= 3 && len(owners) >= 2 && w.Classes["c09.non-owner-attempt"] > 0
	},
	MinClasses: map[string]int{"c09.registration": 30, "c09.non-owner-attempt": 5},
})

var cfgC06 = reg(PropCfg{
	ID: "C06",
	Profile: &Profile{PReimport: 3, Weights: map[string]int{WrkReg: 12, WrkRec: 22, WrkPur: 12, BcnReg: 10, BcnRec: 18, BcnPur: 10, BankSend: 6, EntRaise: 8, EntDecide: 14, StrCreate: 2, FeeGrantOp: 9},
		MinBlocks: 6, MaxBlocks: 25, MaxTxs: 6, MaxOps: 4, PUpper: 3, PActor: 4, PNamed: 1, PFault: 3, PExec: 12, PGovParams: 8, PBadRef: 3, TinyLimits: false,
		ValidParams: true, GovKinds: []string{ParamsWrk, ParamsBcn}, PCheck: 60, LockedActors: true, PGranter: 25, NodeMinGas: true, RegDenomMix: true, HugeFeeParams: true,
		FeeModes: []int{FeeExact, FeeExact, FeeExact, FeeNone, FeeLower, FeeHigher, FeeExactPlusExtraDenom, FeeOnlyExtraDenom, FeeLowerPlusExtraDenom, FeeHigherPlusExtraDenom, FeeFirstModuleOnly, FeeSubset, FeeSubset}, MultiPct: 30, PSameKind: 50, PFeePayer: 8},
	Rule: "history containing >=1 CheckTx of a tx with >=1 WRKChain/BEACON operation and valid signature/sequence (reaches the fee decorators); distinct by scenario hash",
	NonTrivial: func(w *World) bool { return w.Classes["c06.feeop-tx-reaching-fee-checks"] > 0 },
	MinClasses: map[string]int{"c06.admitted-exact": 20, "c06.feemode.6": 5, "c06.recheck-kept": 50, "c06.recheck-evicted-after-fee-change": 3},
	Assume:     []string{"messages inside a governance proposal are not counted (they do not execute in the submitting transaction)", "payer funds = bank balance + locked eFUND in the mempool (check) state before the CheckTx"},
})

func streamProfile() *Profile {
	return &Profile{Weights: map[string]int{StrCreate: 12, StrClaim: 26, StrTopUp: 10, StrUpdate: 8, StrCancel: 6, BankSend: 5, WrkReg: 1, EntRaise: 1},
		MinBlocks: 6, MaxBlocks: 30, MaxTxs: 4, MaxOps: 2, PUpper: 6, PActor: 8, PNamed: 2, PFault: 2, PExec: 6, PGovParams: 8, PBadRef: 4,
		BigAmounts: true, ValidParams: true, LongTime: true, GovKinds: []string{ParamsStr}, PEscrow: 8, PReimport: 4, PGovSendSwitch: 25}
}

var cfgC10 = reg(PropCfg{
	ID: "C10", Profile: streamProfile(),
	Rule: "history with >=2 streams alive at a block boundary, >=1 release under a non-zero validator fee; distinct by scenario hash",
	NonTrivial: func(w *World) bool { return w.Classes["c10.multi-stream-state"] > 0 && w.Classes["c10.release-with-fee"] > 0 },
	MinClasses: map[string]int{"c10.release-with-fee": 20, "c10.escrow-multi-denom": 5},
	Assume:     []string{"coin movements are attributed per stream from balance deltas around single-operation transactions whose sender, receiver, fee collector and escrow are distinct accounts"},
})

var cfgC11 = reg(PropCfg{
	ID: "C11", Profile: streamProfile(),
	Rule: "history with >=1 release strictly before the deposit-zero time and >=1 settlement by top-up/update/cancel",
	NonTrivial: func(w *World) bool {
		return w.Classes["c11.release-before-zero"] > 0 && w.Classes["c11.settle-by-"+StrTopUp]+w.Classes["c11.settle-by-"+StrUpdate]+w.Classes["c11.settle-by-"+StrCancel] > 0
	},
	MinClasses: map[string]int{"c11.release-before-zero": 20},
	Assume:     []string{"block times are multiples of 1 ms (Duration.Seconds() is a float; exact up to 2^43 s at that granularity)", "deposit-zero times beyond year 9999 cannot be represented in a protobuf timestamp; they are not compared"},
})

var cfgC12 = reg(PropCfg{
	ID: "C12", Profile: streamProfile(),
	Rule: "history containing a stream whose lifetime deposits exceed 2^63, or the end-of-history sweep (claim then cancel of every surviving stream)",
	NonTrivial: func(w *World) bool { return w.Classes["c12.stream-above-2^63"] > 0 || w.Classes["c12.sweep"] > 0 },
	MinClasses: map[string]int{"c12.sweep": 10},
	Assume:     []string{"liveness is asserted only for streams the chain accepted, as 'the next claim/cancel/affordable top-up succeeds'"},
})

func TestC10(t *testing.T) { RunProperty(t, cfgC10) }
func TestC11(t *testing.T) { RunProperty(t, cfgC11) }
func TestC12(t *testing.T) { RunProperty(t, cfgC12) }
var cfgC17 = reg(PropCfg{
	ID: "C17",
	Profile: &Profile{PReimport: 3, Weights: mixedWeights(), MinBlocks: 8, MaxBlocks: 40, MaxTxs: 4, MaxOps: 2, PUpper: 4, PActor: 5, PNamed: 1, PFault: 2, PExec: 5,
		PGovParams: 0, PBadRef: 3, Vesting: true, TinyLimits: true, ValidParams: true, BigAmounts: true, ManyDenoms: true},
	Rule: "history reaching a committed state with 0 < locked < supply, >= 3 denominations and a page limit below the number of denominations (>= 2 pages)",
	NonTrivial: func(w *World) bool { return w.Classes["c17.locked-partial"] > 0 && w.Classes["c17.multi-page-3-denoms"] > 0 },
	MinClasses: map[string]int{"c17.locked-partial": 20, "c17.multi-page-3-denoms": 50, "c17.reverse-page-from-key-above-native": 50},
	Assume:     []string{"figures are read through the ABCI Query route on committed state; HTTP route precedence of the REST gateway is not exercised", "page plans (limit, key/offset, count_total, reverse) cycle deterministically with the block height"},
})

func TestC17(t *testing.T) { RunProperty(t, cfgC17) }
var cfgC14 = reg(PropCfg{
	ID: "C14",
	Profile: &Profile{PReimport: 3, Weights: mixedWeights(), MinBlocks: 8, MaxBlocks: 40, MaxTxs: 4, MaxOps: 4, PUpper: 6, PActor: 8, PNamed: 2, PFault: 4, PExec: 8,
		PGovParams: 14, PGovSendSwitch: 12, PGovRaise: 20, PQuorumConflict: 10, GovKinds: []string{ParamsEnt, ParamsEnt, ParamsWrk, ParamsBcn, ParamsStr}, PBadRef: 5, Vesting: true, TinyLimits: true, BigAmounts: true, EntDenomChange: true, LongTime: true, GasSweep: true, MultiPct: 35, PGranter: 10, PFeePayer: 6, PExecTail: 8},
	Rule: "history with a failed multi-message tx whose first message was viable alone, or enterprise parameters changed while an order was queued",
	NonTrivial: func(w *World) bool {
		return w.Classes["c14.failed-multi-message-tx-first-op-viable"] > 0 || w.Classes["c14.ent-params-changed-with-order-queued"] > 0
	},
	MinClasses: map[string]int{"c14.failed-multi-message-tx-first-op-viable": 20},
	Assume:     []string{"undecodable transactions are not generated; 'pre-execution effects' = signer sequences, fee movement payer -> fee collector, and the eFUND unlock of the payer"},
})

func TestC14(t *testing.T) { RunProperty(t, cfgC14) }
var cfgC13 = reg(PropCfg{
	ID: "C13",
	Profile: &Profile{PReimport: 3, Weights: map[string]int{EntRaise: 8, EntDecide: 12, EntWL: 6, WrkReg: 5, WrkRec: 9, WrkPur: 4, BcnReg: 5, BcnRec: 8, BcnPur: 4,
		StrCreate: 8, StrClaim: 8, StrTopUp: 4, StrUpdate: 4, StrCancel: 4, ParamsEnt: 2, ParamsWrk: 2, ParamsBcn: 2, ParamsStr: 2, BankSend: 2, FeeGrantOp: 3},
		MinBlocks: 8, MaxBlocks: 35, MaxTxs: 5, MaxOps: 2, PUpper: 8, PActor: 30, PNamed: 12, PFault: 6, PExec: 14, PGovParams: 6, PBadRef: 3,
		TinyLimits: true, MultiPct: 15, PFeePayer: 5, PForward: 40, PRetry: 5, PGranter: 12, PExecTail: 25, PEscrow: 5, RegDenomMix: true, LockedActors: true, PAmino: 15, PTamper: 35, PGovRaise: 40},
	Rule: "history containing >=1 attempt by an unentitled party on a live target (the same message would be meaningful for the entitled party); distinct by scenario hash",
	NonTrivial: func(w *World) bool { return w.Classes["c13.attempt-on-live-target"] > 0 },
	MinClasses: map[string]int{"c13.attempt-on-live-target": 200, "c13.entitled-control-ok": 500, "c13.attempt.exec-without-grant": 20, "c13.attempt.names-other-account": 20, "c13.control-via-grant": 3},
	Assume:     []string{"a valid authz grant from the entitled party is entitlement (the granter signed the grant); such transactions are controls, not attacks"},
})

func TestC13(t *testing.T) { RunProperty(t, cfgC13) }
var cfgC16 = reg(PropCfg{
	ID: "C16",
	Profile: &Profile{PQuorumConflict: 15, PReimport: 3, Weights: mixedWeights(), MinBlocks: 10, MaxBlocks: 40, MaxTxs: 3, MaxOps: 2, PUpper: 4, PActor: 4, PNamed: 1, PFault: 1, PExec: 4,
		PGovParams: 40, PBadRef: 3, TinyLimits: true, DupSigners: false},
	Oracles: []string{"C16", "C03", "C08", "C10"},
	Alias:   map[string]string{"C03": ParamsEnt, "C08": ParamsWrk, "C10": ParamsStr},
	Rule:    "history with >=1 applied parameter update followed by a probe or operation whose outcome depends on the new values (fee probe admitted/rejected, tally, limit, fee split)",
	NonTrivial: func(w *World) bool {
		return w.Classes["c16.update-applied"] > 0 && (w.Classes["c16.probe-old-fee-rejected"]+w.Classes["c03.accepted"]+w.Classes["c03.rejected"]+w.Classes["c10.release-with-fee"]+w.Classes["c08.ok."+WrkReg] > 0)
	},
	MinClasses: map[string]int{"c16.update-applied": 100, "c16.probe-old-fee-rejected": 10, "c16.probe-new-fee-admitted": 10, "c16.invalid-update-rejected-at-execution": 0},
	Assume:     []string{"calling the message server with invalid parameters while bypassing ValidateBasic is not reachable through governance and is not asserted", "the C03 (tally), C08 (limits) and C10 (fee split) oracles run as probes; their findings count for C16 once an update of that module has been applied in the same history"},
})

func TestC16(t *testing.T) { RunProperty(t, cfgC16) }
var cfgC20 = reg(PropCfg{
	ID: "C20",
	Profile: &Profile{PReimport: 3, Weights: map[string]int{EntRaise: 14, EntDecide: 20, EntWL: 8, WrkReg: 12, WrkRec: 6, BcnReg: 12, BcnRec: 6, StrCreate: 16, StrClaim: 4, StrCancel: 3, BankSend: 2},
		MinBlocks: 6, MaxBlocks: 25, MaxTxs: 6, MaxOps: 2, PUpper: 10, PActor: 3, PNamed: 1, PFault: 1, PExec: 3, PGovParams: 3, PBadRef: 2, ValidParams: true, TinyLimits: true, PBulk: 10},
	Rule: "history reaching a committed state in which a filter matches a strict, non-empty subset of a collection and a list query needs >= 2 pages",
	NonTrivial: func(w *World) bool { return w.Classes["c20.filter-strict-subset"] > 0 && w.Classes["c20.multi-page"] > 0 },
	MinClasses: map[string]int{"c20.filter-strict-subset": 100, "c20.multi-page": 500},
	Assume:     []string{"'stored items' are read through the keepers' own iterators on committed state; address filters are given in canonical spelling and match by account", "the whitelist query is unpaginated by design", "page plans (limit, key/offset, count_total, reverse) and filter values cycle deterministically"},
})

func TestC20(t *testing.T) { RunProperty(t, cfgC20) }
var cfgC15 = reg(PropCfg{
	ID: "C15",
	Profile: &Profile{Weights: map[string]int{EntRaise: 12, EntDecide: 22, EntWL: 4, WrkReg: 6, WrkRec: 14, WrkPur: 3, BcnReg: 5, BcnRec: 12, BcnPur: 3, StrCreate: 8, StrClaim: 6, StrTopUp: 2, StrUpdate: 1, StrCancel: 2, BankSend: 3},
		MinBlocks: 12, MaxBlocks: 45, MaxTxs: 5, MaxOps: 2, PUpper: 5, PActor: 3, PNamed: 1, PFault: 1, PExec: 4, PGovParams: 6, PBadRef: 2, ValidParams: true, TinyLimits: true, Vesting: true, LongTime: true, SteerExport: true, PBulk: 3},
	Rule: "round trip at an export point whose state holds >=1 raised/accepted order and >=1 funded stream and (>=1 pruned registration or >=1 account with spent eFUND), followed by a continuation on both chains",
	PerCase: c15PerCase,
	MinClasses: map[string]int{"c15.import-ok": 50, "c15.export-with-funded-stream": 20, "c15.export-with-order-in-flight": 20, "c15.continuation-tx": 200},
	Assume:     []string{"the export point is after two thirds of the generated history; the importing node uses default options (genesis invariants on)", "ModuleBasics.ValidateGenesis on the export is not asserted", "histories never reach the 20,000-record export cap (a directed case covers it in the thorough tier)"},
})

func TestC15(t *testing.T) { RunProperty(t, cfgC15) }
func c01Weights() map[string]int {
	w := mixedWeights()
	w[WrkPur], w[BcnPur], w[WrkReg], w[BcnReg] = 12, 10, 10, 8 // the ante slot pre-check ranges over a map: many multi-registration purchases
	return w
}

var cfgC01 = reg(PropCfg{
	ID: "C01",
	Profile: &Profile{Weights: c01Weights(), SlotRules: []int{0, 0, 0, 1, 2, 2, 2, 3, 5}, MinBlocks: 3, MaxBlocks: 22, MaxTxs: 5, MaxOps: 3, PUpper: 6, PActor: 8, PNamed: 2, PFault: 5, PExec: 8,
		PGovParams: 8, PBadRef: 5, Vesting: true, TinyLimits: true, BigAmounts: true, LongTime: true, GasSweep: true, MultiPct: 25, PSameKind: 35, PCheck: 8, Crashes: true, EntDenomChange: false, PMultiTarget: 40, EntSteerBoth: true, PQuorumConflict: 30, GovKinds: []string{ParamsEnt, ParamsEnt, ParamsEnt, ParamsWrk, ParamsBcn, ParamsStr}, PFeePayer: 4, PGranter: 4, PForward: 40, PRetry: 3, PExecTail: 8},
	Rule: "history with >=1 successful custom-module tx and >=1 failed tx, executed on a second node that differs in node-local options and/or is restarted inside a block that already delivered a tx",
	PerCase: c01PerCase,
	MinClasses: map[string]int{"c01.restarts": 50, "c01.restarts-after-tx": 10, "c01.ok-custom-tx": 300, "c01.failed-tx": 200},
	Assume:     []string{"crash points inside Commit are not generated (not in the property's list of restart points)", "only MemDB and goleveldb are available in this sandbox", "Log, events and Info of responses are not compared (not consensus data)", "wall-clock independence is tested at seconds granularity by re-executing recorded histories after the clock has advanced by >= 2 s, and in a second OS process (thorough)"},
})

func TestC01(t *testing.T) {
	c01Later = nil
	start := time.Now()
	RunProperty(t, cfgC01)
	if t.Failed() || len(c01Later) == 0 {
		return
	}
	// wall-clock independence: the same recordings once more, at least two seconds later
	for time.Since(start) < 2100*time.Millisecond {
		time.Sleep(100 * time.Millisecond)
	}
	ev := NewEvidence("C01", "")
	defer ev.Flush()
	for i, rec := range c01Later {
		if msg, _ := replayRecording(rec, lab.NodeOpts{DB: "mem"}, false, "node B' (later wall clock)"); msg != "" {
			fmt.Printf("C01-LATER-MISMATCH recording %d: %s\n", i, msg)
			dir := os.Getenv("VERIF_REPLAY_DIR")
			if dir != "" {
				b, _ := json.MarshalIndent(map[string]interface{}{"property": "C01", "findings": []Finding{{Prop: "C01", Msg: msg}}, "recording": rec}, "", " ")
				os.WriteFile(filepath.Join(dir, "C01-candidate.json"), b, 0o644)
			}
			t.Fatalf("C01 violated: %s", msg)
		}
		ev.Count("c01.later-wall-clock-replays", 1)
	}
	ev.Prop = "C01"
	os.Setenv("VERIF_SHARD", os.Getenv("VERIF_SHARD")+"-later")
}

// TestC01OtherProcess is the child side of the cross-process comparison.
func TestC01OtherProcess(t *testing.T) {
	path := os.Getenv("VERIF_C01_RECORDING")
	if path == "" {
		t.Skip()
	}
	b, err := os.ReadFile(path)
	if err != nil {
		t.Fatal(err)
	}
	var rec Recording
	if err := json.Unmarshal(b, &rec); err != nil {
		t.Fatal(err)
	}
	if msg, _ := replayRecording(&rec, lab.NodeOpts{DB: "level", Pruning: "nothing"}, false, "node C (second OS process, GOMAXPROCS=1)"); msg != "" {
		fmt.Println("C01-OTHER-PROCESS-MISMATCH: " + msg)
		return
	}
	fmt.Println("C01-OTHER-PROCESS-OK")
}

func TestC06(t *testing.T) { RunProperty(t, cfgC06) }
func TestC07(t *testing.T) { RunProperty(t, cfgC07) }
func TestC08(t *testing.T) { RunProperty(t, cfgC08) }
func TestC09(t *testing.T) { RunProperty(t, cfgC09) }
func TestC02(t *testing.T) { RunProperty(t, cfgC02) }
func TestC03(t *testing.T) { RunProperty(t, cfgC03) }
func TestC04(t *testing.T) { RunProperty(t, cfgC04) }
func TestC05(t *testing.T) { RunProperty(t, cfgC05) }

func TestReplay(t *testing.T) { Replay(t, cfgs) }
