package sim

import (
	"encoding/json"
	"fmt"
	"os"
	"path/filepath"
	"testing"

	"pgregory.net/rapid"

	"verifharness/lab"
)

// PropCfg describes one property check over generated scenarios.
type PropCfg struct {
	ID         string
	Profile    *Profile
	Oracles    []string // enabled oracles; default [ID]
	Rule       string
	Assume     []string
	NonTrivial func(w *World) bool
	// MinClasses: classes that must have been seen at least n times over the whole
	// run (generator health / non-vacuity); a shortfall is "inconclusive", not a violation.
	MinClasses map[string]int
	Opts       func(t *rapid.T) lab.NodeOpts
	Gen        func(t *rapid.T) *Scenario // overrides GenScenario(Profile)
	PerCase    func(rt *rapid.T, s *Scenario, ev *Evidence) []Finding // overrides the default single-world run
	Alias      map[string]string // see World.Alias
}

// ReplayFile is what a replay contains: the case, not the seed.
type ReplayFile struct {
	Prop     string          `json:"property"`
	Findings []Finding       `json:"findings"`
	Trace    []string        `json:"trace,omitempty"`
	Scenario json.RawMessage `json:"scenario"`
	Extra    json.RawMessage `json:"extra,omitempty"`
}

type failState struct {
	best     *ReplayFile
	bestSize int
}

func (f *failState) offer(prop string, s *Scenario, findings []Finding, trace []string) {
	js := s.JSON()
	size := s.NumTxs()*1_000_000 + len(js)
	if f.best != nil && size >= f.bestSize {
		return
	}
	f.best = &ReplayFile{Prop: prop, Findings: findings, Trace: trace, Scenario: js}
	f.bestSize = size
	f.write()
}

func (f *failState) write() {
	dir := os.Getenv("VERIF_REPLAY_DIR")
	if dir == "" || f.best == nil {
		return
	}
	os.MkdirAll(dir, 0o755)
	b, _ := json.MarshalIndent(f.best, "", " ")
	os.WriteFile(filepath.Join(dir, f.best.Prop+"-candidate.json"), b, 0o644)
}

// RunCase executes a scenario with the oracles of cfg and returns the findings
// that are not explained by a listed known finding.
func RunCase(cfg *PropCfg, s *Scenario, opts lab.NodeOpts, ev *Evidence, trace bool) (viol []Finding, w *World, err error) {
	oracles := cfg.Oracles
	if len(oracles) == 0 {
		oracles = []string{cfg.ID}
	}
	w, err = NewWorld(s, opts, oracles...)
	if err != nil {
		return nil, nil, err
	}
	defer w.Close()
	w.TraceOn = trace
	if len(cfg.Alias) > 0 {
		w.AliasTo, w.Alias = cfg.ID, cfg.Alias
	}
	w.Run()
	for _, f := range w.Relevant() {
		if f.Prop != cfg.ID {
			continue
		}
		if w.Known.Has(f.Sig) {
			if ev != nil {
				ev.Known(f.Sig, fmt.Sprintf("KNOWN-FINDING: property=%s sig=%s %s", f.Prop, f.Sig, f.Msg))
			}
			dumpKnown(cfg.ID, f, s)
			continue
		}
		viol = append(viol, f)
	}
	return viol, w, nil
}

// Minimize greedily drops blocks, transactions and operations from a failing
// scenario while the same property still fails (bounded number of attempts). The
// case is plain data, so this needs neither rapid nor the seed.
func Minimize(cfg *PropCfg, s *Scenario, budget int) *Scenario {
	fails := func(c *Scenario) bool {
		if budget <= 0 {
			return false
		}
		budget--
		v, _, err := RunCase(cfg, c, lab.NodeOpts{DB: "mem"}, nil, false)
		return err == nil && len(v) > 0
	}
	clone := func(c *Scenario) *Scenario {
		var out Scenario
		json.Unmarshal(c.JSON(), &out)
		return &out
	}
	cur := clone(s)
	// drop trailing blocks first (the violation usually ends the case)
	for changed := true; changed && budget > 0; {
		changed = false
		for i := len(cur.Blocks) - 1; i >= 0 && budget > 0; i-- {
			c := clone(cur)
			dt := c.Blocks[i].DtMs
			c.Blocks = append(c.Blocks[:i], c.Blocks[i+1:]...)
			if i < len(c.Blocks) && c.Blocks[i].DtRule == 0 {
				c.Blocks[i].DtMs += dt // keep the timeline
			}
			if fails(c) {
				cur, changed = c, true
			}
		}
		for i := len(cur.Blocks) - 1; i >= 0 && budget > 0; i-- {
			for j := len(cur.Blocks[i].Txs) - 1; j >= 0 && budget > 0; j-- {
				c := clone(cur)
				c.Blocks[i].Txs = append(c.Blocks[i].Txs[:j], c.Blocks[i].Txs[j+1:]...)
				if fails(c) {
					cur, changed = c, true
				}
			}
		}
	}
	return cur
}

// RunProperty is the rapid entry point shared by the scenario-based checks.
func RunProperty(t *testing.T, cfg PropCfg) {
	ev := NewEvidence(cfg.ID, cfg.Rule, cfg.Assume...)
	fs := &failState{}
	defer func() {
		if fs.best != nil && cfg.PerCase == nil {
			var sc Scenario
			if json.Unmarshal(fs.best.Scenario, &sc) == nil {
				min := Minimize(&cfg, &sc, 150)
				if v, w, err := RunCase(&cfg, min, lab.NodeOpts{DB: "mem"}, nil, true); err == nil && len(v) > 0 {
					fs.best = &ReplayFile{Prop: cfg.ID, Findings: v, Trace: w.Trace, Scenario: min.JSON()}
					fs.write()
				}
			}
		}
		ev.MinClasses = cfg.MinClasses // checked by the driver over all shards
		ev.Flush()
	}()
	n := 0
	rapid.Check(t, func(rt *rapid.T) {
		var s *Scenario
		if cfg.Gen != nil {
			s = cfg.Gen(rt)
		} else {
			s = GenScenario(rt, cfg.Profile)
		}
		n++
		var viol []Finding
		var trace []string
		if cfg.PerCase != nil {
			viol = cfg.PerCase(rt, s, ev)
			if len(viol) > 0 {
				_, trace = RunC15Trace(cfg.ID, s)
			}

		} else {
			opts := lab.NodeOpts{DB: "mem"}
			if cfg.Opts != nil {
				opts = cfg.Opts(rt)
			}
			wantTrace := n <= 3
			v, w, err := RunCase(&cfg, s, opts, ev, wantTrace)
			if err != nil {
				// a genesis the application refuses is not a case (the generator only emits valid documents)
				ev.Count("genesis.refused", 1)
				rt.Skip("genesis refused: " + err.Error())
			}
			viol = v
			ev.AddClasses(w.Classes)
			nt := cfg.NonTrivial == nil || cfg.NonTrivial(w)
			ev.Eval(s.Hash(), nt)
			if wantTrace && len(viol) == 0 {
				ev.Sample(map[string]interface{}{"history": w.Trace}, 3)
			}
			trace = w.Trace
			if len(viol) > 0 && !wantTrace {
				// re-run with tracing for the replay file
				_, w2, _ := RunCase(&cfg, s, opts, nil, true)
				if w2 != nil {
					trace = w2.Trace
				}
			}
		}
		if len(viol) > 0 {
			ev.mu.Lock()
			ev.Violations++
			ev.mu.Unlock()
			fs.offer(cfg.ID, s, viol, trace)
			rt.Fatalf("property %s violated: %s (%s)", cfg.ID, viol[0].Msg, viol[0].At)
		}
	})
}

// Replay runs a saved case without rapid (plain regression run through the same executor and oracle).
func Replay(t *testing.T, cfgs map[string]PropCfg) {
	path := os.Getenv("VERIF_REPLAY_FILE")
	if path == "" {
		t.Skip("VERIF_REPLAY_FILE not set")
	}
	b, err := os.ReadFile(path)
	if err != nil {
		t.Fatal(err)
	}
	var rf ReplayFile
	if err := json.Unmarshal(b, &rf); err != nil {
		t.Fatal(err)
	}
	cfg, ok := cfgs[rf.Prop]
	if !ok {
		t.Fatalf("no scenario-based check for %s", rf.Prop)
	}
	var s Scenario
	if err := json.Unmarshal(rf.Scenario, &s); err != nil {
		t.Fatal(err)
	}
	ev := NewEvidence(cfg.ID, cfg.Rule)
	if cfg.PerCase != nil {
		var viol []Finding
		var tr []string
		switch rf.Prop {
		case "C15":
			viol, tr = RunC15(&s, nil, true)
		case "C01":
			opts := lab.NodeOpts{DB: "level"}
			if len(s.Nodes) > 0 {
				opts = s.Nodes[0]
			}
			// nondeterminism may need several executions to show (e.g. map iteration order): up to 8 twin runs
			for i := 0; i < 8 && len(viol) == 0; i++ {
				viol = runC01(&s, opts, nil)
			}
		}
		for _, l := range tr {
			fmt.Println(l)
		}
		known := LoadedKnown()
		bad := false
		for _, f := range viol {
			if known.Has(f.Sig) {
				fmt.Printf("KNOWN-FINDING: property=%s sig=%s %s\n", f.Prop, f.Sig, f.Msg)
				continue
			}
			fmt.Printf("REPLAY-VIOLATION property=%s %s\n", f.Prop, f.Msg)
			bad = true
		}
		if bad {
			t.Fatalf("replay reproduces the violation")
		}
		fmt.Println("REPLAY-OK: the saved case no longer violates", rf.Prop)
		return
	}
	viol, w, err := RunCase(&cfg, &s, lab.NodeOpts{DB: "mem"}, ev, true)
	if err != nil {
		t.Fatal(err)
	}
	for _, l := range w.Trace {
		fmt.Println(l)
	}
	for sig, line := range ev.KnownLines {
		fmt.Println(line, "(", sig, ")")
	}
	if len(viol) > 0 {
		for _, f := range viol {
			fmt.Printf("REPLAY-VIOLATION property=%s %s (%s)\n", f.Prop, f.Msg, f.At)
		}
		t.Fatalf("replay reproduces the violation")
	}
	fmt.Println("REPLAY-OK: the saved case no longer violates", rf.Prop)
}

// RunC15Trace re-runs a per-case check with tracing (for the replay file).
func RunC15Trace(id string, s *Scenario) ([]Finding, []string) {
	if id == "C15" {
		return RunC15(s, nil, true)
	}
	return nil, nil
}

// dumpKnown writes the first case exhibiting each known finding to $VERIF_DUMP_KNOWN (used once, to build
// the regression corpus that re-exhibits every listed finding deterministically).
func dumpKnown(prop string, f Finding, s *Scenario) {
	dir := os.Getenv("VERIF_DUMP_KNOWN")
	if dir == "" {
		return
	}
	name := filepath.Join(dir, prop+"-"+filepath.Base(f.Sig)+".json")
	if _, err := os.Stat(name); err == nil {
		return
	}
	os.MkdirAll(dir, 0o755)
	b, _ := json.MarshalIndent(&ReplayFile{Prop: prop, Findings: []Finding{f}, Scenario: s.JSON()}, "", " ")
	os.WriteFile(name, b, 0o644)
}
