package sim

import (
	"encoding/json"
	"fmt"
	"os"
	"path/filepath"
	"sort"
	"sync"
)

// Evidence accumulates what a run actually covered. It is flushed as one shard
// file; the driver merges shards (distinct_nontrivial by set union of hashes).
type Evidence struct {
	mu          sync.Mutex
	Prop        string                 `json:"prop"`
	Evaluations int                    `json:"evaluations"`
	Nontrivial  map[uint64]bool        `json:"-"`
	NTList      []uint64               `json:"nontrivial_hashes"`
	Classes     map[string]int         `json:"classes"`
	Samples     []interface{}          `json:"samples"`
	Excluded    map[string]int         `json:"excluded"`
	KnownLines  map[string]string      `json:"known_lines"`
	Violations  int                    `json:"violations"`
	SelfCheck   []string               `json:"selfcheck_failures"`
	MinClasses  map[string]int         `json:"min_classes,omitempty"`
	Extra       map[string]interface{} `json:"extra,omitempty"`
	Rule        string                 `json:"rule"`
	Assumptions []string               `json:"assumptions"`
	Exhaustive  bool                   `json:"exhaustive,omitempty"`
}

func NewEvidence(prop, rule string, assumptions ...string) *Evidence {
	return &Evidence{Prop: prop, Rule: rule, Assumptions: assumptions, Nontrivial: map[uint64]bool{}, Classes: map[string]int{},
		Excluded: map[string]int{}, KnownLines: map[string]string{}, Extra: map[string]interface{}{}}
}

func (e *Evidence) AddClasses(m map[string]int) {
	e.mu.Lock()
	defer e.mu.Unlock()
	for k, v := range m {
		e.Classes[k] += v
	}
}

func (e *Evidence) Count(class string, n int) {
	e.mu.Lock()
	defer e.mu.Unlock()
	e.Classes[class] += n
}

func (e *Evidence) Eval(hash uint64, nontrivial bool) {
	e.mu.Lock()
	defer e.mu.Unlock()
	e.Evaluations++
	if nontrivial {
		e.Nontrivial[hash] = true
	}
}

func (e *Evidence) Sample(v interface{}, max int) {
	e.mu.Lock()
	defer e.mu.Unlock()
	if len(e.Samples) < max {
		e.Samples = append(e.Samples, v)
	}
}

func (e *Evidence) Known(sig, line string) {
	e.mu.Lock()
	defer e.mu.Unlock()
	e.Excluded[sig]++
	if _, ok := e.KnownLines[sig]; !ok {
		e.KnownLines[sig] = line
	}
}

// Flush writes the shard file $VERIF_EVIDENCE_DIR/<prop>.<shard>.json.
func (e *Evidence) Flush() {
	e.mu.Lock()
	defer e.mu.Unlock()
	dir := os.Getenv("VERIF_EVIDENCE_DIR")
	if dir == "" {
		return
	}
	e.NTList = e.NTList[:0]
	for h := range e.Nontrivial {
		e.NTList = append(e.NTList, h)
	}
	sort.Slice(e.NTList, func(i, j int) bool { return e.NTList[i] < e.NTList[j] })
	shard := os.Getenv("VERIF_SHARD")
	if shard == "" {
		shard = "0"
	}
	os.MkdirAll(dir, 0o755)
	b, _ := json.MarshalIndent(e, "", " ")
	os.WriteFile(filepath.Join(dir, fmt.Sprintf("%s.%s.json", e.Prop, shard)), b, 0o644)
}
