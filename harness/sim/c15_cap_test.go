package sim

import (
	"fmt"
	"testing"

	"pgregory.net/rapid"

	"verifharness/lab"
)

// TestC15Cap is the directed part of C15 (thorough tier): a registration that
// retains more than the 20,000 records an export carries. The fresh chain must
// import, satisfy the invariants, retain exactly the newest 20,000 with counters
// that reflect that, and export an identical document again.
func TestC15Cap(t *testing.T) {
	ev := NewEvidence("C15", "export-cap case: one registration retaining 20,000 + k records (k drawn in 1..40), WRKChain with height gaps or BEACON; non-trivial by construction; distinct by (module, k, gaps)")
	defer ev.Flush()
	fs := &failState{}
	rapid.Check(t, func(rt *rapid.T) {
		beacon := uni(rt, 2, "beacon") == 1
		k := uniRange(rt, 1, 40, "beyondCap")
		gap := uniRange(rt, 0, 2, "heightGap")
		const cap = 20000
		n := cap + k
		s := &Scenario{Gen: exGenesis()}
		lim := uint64(cap + 40)
		s.Gen.Wrk.DefLimit, s.Gen.Wrk.MaxLimit = lim, lim+10
		s.Gen.Bcn.DefLimit, s.Gen.Bcn.MaxLimit = lim, lim+10
		s.Gen.Wrk.FeeRec, s.Gen.Bcn.FeeRec = 1, 1
		regKind, recKind := WrkReg, WrkRec
		if beacon {
			regKind, recKind = BcnReg, BcnRec
		}
		s.Blocks = append(s.Blocks, Block{DtMs: 1000, Txs: []Tx{{Ops: []Op{{Kind: regKind, Actor: 1, Named: -1, Peer: 1}}}}})
		rule := 0
		if gap > 0 {
			rule = 3 // last + 2 + N%1000
		}
		for done := 0; done < n; {
			blk := Block{DtMs: 1000}
			for i := 0; i < 50 && done < n; i++ {
				blk.Txs = append(blk.Txs, Tx{Ops: []Op{{Kind: recKind, Actor: -1, Named: -1, Ref: 0, Rule: rule, N: uint64(gap)}}})
				done++
			}
			s.Blocks = append(s.Blocks, blk)
		}
		w, err := NewWorld(s, lab.NodeOpts{DB: "mem"})
		if err != nil {
			rt.Fatalf("genesis: %v", err)
		}
		defer w.Close()
		w.Run()
		m := w.Wrk
		if beacon {
			m = w.Bcn
		}
		fail := func(format string, args ...interface{}) {
			msg := fmt.Sprintf(format, args...)
			fs.offer("C15", &Scenario{Gen: s.Gen, Blocks: s.Blocks[:1]}, []Finding{{Prop: "C15", Msg: msg}}, []string{fmt.Sprintf("directed export-cap case: beacon=%v records=%d gap=%d", beacon, n, gap)})
			rt.Fatalf("C15 violated (export cap case): %s", msg)
		}
		if len(m.Regs) != 1 || int(m.Regs[0].Total) != n {
			rt.Skip("setup did not record all submissions") // not a property question
		}
		reg := m.Regs[0]
		ev.Eval(HashJSON([]interface{}{beacon, k, gap}), true)
		ev.Count("c15.cap-case", 1)
		ev.Sample(map[string]interface{}{"module": modName(beacon), "records_in_state": n, "export_cap": cap, "height_gap_rule": gap}, 4)
		stateA, err := w.C.Export()
		if err != nil {
			fail("export failed: %v", err)
		}
		b, err := lab.ImportAppState(s.Gen, lab.NodeOpts{DB: "mem"}, stateA, w.C.Now)
		if err != nil {
			fail("initialising a fresh chain from the exported state failed: %v", err)
		}
		defer b.Close()
		func() {
			defer func() {
				if r := recover(); r != nil {
					fail("a registered invariant is broken on the imported chain: %v", r)
				}
			}()
			b.App.CrisisKeeper.AssertInvariants(b.Ctx())
		}()
		wb := &World{C: b}
		ret := reg.Retained()
		keep := ret[len(ret)-cap:]
		o := obsReg(wb, b.Ctx(), beacon, reg.ID)
		if !o.found || o.num != cap || o.lowest != keep[0].Key || o.last != reg.LastKey {
			fail("imported %s %d reports in-state %d lowest %d last %d; the newest %d records are %d..%d", modName(beacon), reg.ID, o.num, o.lowest, o.last, cap, keep[0].Key, reg.LastKey)
		}
		for i, rec := range ret {
			if i%97 != 0 && i != len(ret)-cap-1 && i != len(ret)-cap && i != len(ret)-1 {
				continue
			}
			ro := obsRec(wb, b.Ctx(), beacon, reg.ID, rec.Key)
			if i < len(ret)-cap {
				if ro.found {
					fail("record %d is older than the newest %d but exists on the imported chain", rec.Key, cap)
				}
				continue
			}
			if !ro.found || !eqStrs(ro.fields, rec.Fields) || ro.time != rec.Time {
				fail("record %d (among the newest %d) differs on the imported chain: found=%v fields=%q time=%d, recorded %q %d", rec.Key, cap, ro.found, ro.fields, ro.time, rec.Fields, rec.Time)
			}
		}
		stateB, err := b.Export()
		if err != nil {
			fail("export of the imported chain failed: %v", err)
		}
		secA, _ := moduleSections(stateA)
		secB, _ := moduleSections(stateB)
		for _, mod := range c15Modules {
			if secA[mod] != secB[mod] {
				fail("exporting the imported chain gives a different %s document (%d vs %d bytes)", mod, len(secA[mod]), len(secB[mod]))
			}
		}
	})
}
