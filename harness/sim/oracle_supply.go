package sim

import (
	"fmt"
	"math/big"

	sdk "github.com/cosmos/cosmos-sdk/types"
	"github.com/cosmos/cosmos-sdk/types/query"
	banktypes "github.com/cosmos/cosmos-sdk/x/bank/types"

	enttypes "github.com/unification-com/mainchain/x/enterprise/types"
)

// C17: the enterprise supply queries (which replace the bank supply endpoints for
// clients) = bank supply minus total locked for the native denomination, bank
// supply unchanged for every other; paginated listings contain each denomination
// exactly once. Evaluated on committed state through the ABCI Query route.

func c17Page(w *World, path string, plan int, nDenoms int) (sdk.Coins, int, error) {
	var out sdk.Coins
	pages := 0
	limit := uint64(1 + plan%(nDenoms+2))
	byOffset := (plan/7)%2 == 1
	reverse := (plan/3)%3 == 2
	countTotal := plan%2 == 0
	var next []byte
	offset := uint64(0)
	for guard := 0; guard < 20000; guard++ {
		pr := &query.PageRequest{Limit: limit, CountTotal: countTotal, Reverse: reverse}
		if byOffset {
			pr.Offset = offset
		} else {
			pr.Key = next
		}
		var resp enttypes.QueryTotalSupplyResponse
		if err := w.C.Query(path, &enttypes.QueryTotalSupplyRequest{Pagination: pr}, &resp); err != nil {
			return nil, pages, err
		}
		pages++
		out = append(out, resp.Supply...)
		if countTotal && resp.Pagination != nil && (byOffset || next == nil) && resp.Pagination.Total != uint64(nDenoms) {
			return nil, pages, fmt.Errorf("pagination total %d, there are %d denominations", resp.Pagination.Total, nDenoms)
		}
		if byOffset {
			offset += uint64(len(resp.Supply))
			if len(resp.Supply) == 0 || offset >= uint64(nDenoms) {
				break
			}
		} else {
			if resp.Pagination == nil || len(resp.Pagination.NextKey) == 0 {
				break
			}
			next = resp.Pagination.NextKey
		}
	}
	return out, pages, nil
}

func init() {
	register(Hooks{
		Prop: "C17",
		AfterCommit: func(w *World) {
			ctx := w.C.Ctx()
			denom := w.Ent.P.Denom
			bank := map[string]*big.Int{}
			var bankCoins sdk.Coins
			w.C.App.BankKeeper.IterateTotalSupply(ctx, func(c sdk.Coin) bool {
				bank[c.Denom] = c.Amount.BigInt()
				bankCoins = append(bankCoins, c)
				return false
			})
			var tl enttypes.QueryTotalLockedResponse
			if err := w.C.Query(qEnt+"TotalLocked", &enttypes.QueryTotalLockedRequest{}, &tl); err != nil {
				w.Fail("C17", "TotalLocked failed: %v", err)
				return
			}
			locked := tl.Amount.Amount.BigInt()
			if tl.Amount.Denom != denom && locked.Sign() != 0 {
				return // books kept in another denomination after a governance change: C14's subject
			}
			want := func(d string) *big.Int {
				v := new(big.Int).Set(bank[d])
				if d == denom {
					v.Sub(v, locked)
				}
				return v
			}
			switch {
			case locked.Sign() == 0:
				w.Class("c17.locked-zero")
			case locked.Cmp(bank[denom]) < 0:
				w.Class("c17.locked-partial")
			}
			// SupplyOf and its Overwrite twin, for every denomination the bank knows and one it does not
			for _, d := range append(bankCoins.Denoms(), "nosuchdenom") {
				for _, m := range []string{"SupplyOf", "SupplyOfOverwrite"} {
					var r enttypes.QuerySupplyOfResponse
					if err := w.C.Query(qEnt+m, &enttypes.QuerySupplyOfRequest{Denom: d}, &r); err != nil {
						w.Fail("C17", "%s(%s) failed: %v", m, d, err)
						return
					}
					exp := new(big.Int)
					if bank[d] != nil {
						exp = want(d)
					}
					if r.Amount.Denom != d || r.Amount.Amount.BigInt().Cmp(exp) != 0 {
						w.Fail("C17", "%s(%s) = %s, bank supply %v minus locked %s(%s) = %s", m, d, r.Amount, bank[d], locked, denom, exp)
						return
					}
				}
				// and the bank's own figure is what we think it is (differential between the two query services)
				var br banktypes.QuerySupplyOfResponse
				if err := w.C.Query("/cosmos.bank.v1beta1.Query/SupplyOf", &banktypes.QuerySupplyOfRequest{Denom: d}, &br); err == nil && bank[d] != nil {
					if br.Amount.Amount.BigInt().Cmp(bank[d]) != 0 {
						w.Fail("C17", "bank SupplyOf(%s) = %s differs from the supply store %s", d, br.Amount, bank[d])
						return
					}
				}
			}
			// TotalSupply paged to exhaustion under a page plan that cycles with the height
			n := len(bankCoins)
			plan := int(w.C.Height)
			for _, m := range []string{"TotalSupply", "TotalSupplyOverwrite"} {
				got, pages, err := c17Page(w, qEnt+m, plan, n)
				if err != nil {
					w.Fail("C17", "%s (page plan %d): %v", m, plan, err)
					return
				}
				seen := map[string]bool{}
				for _, c := range got {
					if seen[c.Denom] {
						w.Fail("C17", "%s (page plan %d) lists denomination %s twice", m, plan, c.Denom)
						return
					}
					seen[c.Denom] = true
					if bank[c.Denom] == nil || c.Amount.BigInt().Cmp(want(c.Denom)) != 0 {
						w.Fail("C17", "%s (page plan %d) reports %s, expected %s", m, plan, c, want(c.Denom))
						return
					}
				}
				if len(seen) != n {
					w.Fail("C17", "%s (page plan %d, %d pages) lists %d of %d denominations", m, plan, pages, len(seen), n)
					return
				}
				if pages >= 2 && n >= 3 {
					w.Class("c17.multi-page-3-denoms")
				}
			}
			// TotalUnlocked and EnterpriseSupply
			var tu enttypes.QueryTotalUnlockedResponse
			if err := w.C.Query(qEnt+"TotalUnlocked", &enttypes.QueryTotalUnlockedRequest{}, &tu); err != nil {
				w.Fail("C17", "TotalUnlocked failed: %v", err)
				return
			}
			if tu.Amount.Amount.BigInt().Cmp(want(denom)) != 0 || tu.Amount.IsNegative() {
				w.Fail("C17", "TotalUnlocked = %s, expected total %s - locked %s", tu.Amount, bank[denom], locked)
				return
			}
			var es enttypes.QueryEnterpriseSupplyResponse
			err := w.C.Query(qEnt+"EnterpriseSupply", &enttypes.QueryEnterpriseSupplyRequest{}, &es)
			if bank[denom].IsUint64() {
				if err != nil {
					w.Fail("C17", "EnterpriseSupply failed: %v", err)
					return
				}
				s := es.Supply
				if s.Total != bank[denom].Uint64() || s.Locked != locked.Uint64() || s.Amount != want(denom).Uint64() || s.Locked+s.Amount != s.Total || s.Denom != denom {
					w.Fail("C17", "EnterpriseSupply = %+v, expected total %s locked %s unlocked %s", s, bank[denom], locked, want(denom))
					return
				}
			} else {
				w.Class("c17.supply-above-2^64")
				if err == nil {
					s := es.Supply
					if new(big.Int).SetUint64(s.Total).Cmp(bank[denom]) != 0 {
						w.Fail("C17", "EnterpriseSupply serves total %d while the supply is %s (does not fit its uint64 field)", s.Total, bank[denom])
						return
					}
				}
			}
		},
	})
}
