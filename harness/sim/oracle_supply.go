package sim

import (
	"fmt"
	"math/big"

	sdk "github.com/cosmos/cosmos-sdk/types"
	"github.com/cosmos/cosmos-sdk/types/query"
	banktypes "github.com/cosmos/cosmos-sdk/x/bank/types"

	enttypes "github.com/unification-com/mainchain/x/enterprise/types"
)

// C17: the enterprise supply queries (which replace the bank supply endpoints for
// clients) = bank supply minus total locked for the native denomination, bank
// supply unchanged for every other; paginated listings contain each denomination
// exactly once. Evaluated on committed state through the ABCI Query route.

func c17Page(w *World, path string, plan int, nDenoms int) (sdk.Coins, int, error) {
	var out sdk.Coins
	pages := 0
	limit := uint64(1 + plan%(nDenoms+2))
	if nDenoms > 40 && limit < uint64(nDenoms/8) {
		limit += uint64(nDenoms / 8) // very many denominations: at most nine pages per walk
	}
	byOffset := (plan/7)%2 == 1
	reverse := (plan/3)%3 == 2
	countTotal := plan%2 == 0
	var next []byte
	offset := uint64(0)
	// two plans in nine carry no pagination at all in the first request (absent, or present and empty) and then only
	// the continuation key: the service's default page size applies
	bare := plan%9 == 4 || plan%9 == 7
	if bare {
		byOffset = false
	}
	for guard := 0; guard < 20000; guard++ {
		pr := &query.PageRequest{Limit: limit, CountTotal: countTotal, Reverse: reverse}
		if byOffset {
			pr.Offset = offset
		} else {
			pr.Key = next
		}
		if bare {
			pr = &query.PageRequest{Key: next}
			if next == nil && plan%9 == 4 {
				pr = nil
			}
			w.Class("c17.listing-without-pagination-parameters")
		}
		var resp enttypes.QueryTotalSupplyResponse
		if err := w.C.Query(path, &enttypes.QueryTotalSupplyRequest{Pagination: pr}, &resp); err != nil {
			return nil, pages, err
		}
		pages++
		out = append(out, resp.Supply...)
		if countTotal && !bare && resp.Pagination != nil && (byOffset || next == nil) && resp.Pagination.Total != uint64(nDenoms) {
			return nil, pages, fmt.Errorf("pagination total %d, there are %d denominations", resp.Pagination.Total, nDenoms)
		}
		if byOffset {
			offset += uint64(len(resp.Supply))
			if len(resp.Supply) == 0 || offset >= uint64(nDenoms) {
				break
			}
		} else {
			if resp.Pagination == nil || len(resp.Pagination.NextKey) == 0 {
				break
			}
			next = resp.Pagination.NextKey
		}
	}
	return out, pages, nil
}

// c17Gateway: GET requests against the REST routes a client of the bank module would use, and the enterprise routes.
func c17Gateway(gw *Gateway, denoms []string, want func(string) *big.Int, n int) string {
	coinOf := func(v interface{}) (string, string) {
		m, _ := v.(map[string]interface{})
		d, _ := m["denom"].(string)
		a, _ := m["amount"].(string)
		return d, a
	}
	for _, base := range []string{"/cosmos/bank/v1beta1/supply", "/mainchain/enterprise/v1/supply"} {
		url := fmt.Sprintf("%s?pagination.limit=%d", base, n+5)
		st, body, raw := gw.Get(url)
		if st != 200 {
			return fmt.Sprintf("GET %s -> %d %s", url, st, raw)
		}
		list, _ := body["supply"].([]interface{})
		seen := map[string]bool{}
		for _, it := range list {
			d, a := coinOf(it)
			if seen[d] {
				return fmt.Sprintf("GET %s lists %s twice", url, d)
			}
			seen[d] = true
			if a != want(d).String() {
				return fmt.Sprintf("GET %s reports %s%s, expected %s%s", url, a, d, want(d), d)
			}
		}
		if len(seen) != n {
			return fmt.Sprintf("GET %s lists %d of %d denominations", url, len(seen), n)
		}
	}
	for _, d := range denoms {
		for _, url := range []string{"/cosmos/bank/v1beta1/supply/by_denom?denom=" + d, "/mainchain/enterprise/v1/supply/" + d} {
			if len(d) > 20 { // ibc/... denominations contain a slash: only the query-parameter form addresses them
				if url[:10] != "/cosmos/ba" {
					continue
				}
			}
			st, body, raw := gw.Get(url)
			if st != 200 {
				return fmt.Sprintf("GET %s -> %d %s", url, st, raw)
			}
			gd, a := coinOf(body["amount"])
			if gd != d || a != want(d).String() {
				return fmt.Sprintf("GET %s reports %s%s, expected %s%s", url, a, gd, want(d), d)
			}
		}
	}
	return ""
}

func init() {
	register(Hooks{
		Prop: "C17",
		AfterCommit: func(w *World) {
			ctx := w.C.Ctx()
			denom := w.Ent.P.Denom
			bank := map[string]*big.Int{}
			var bankCoins sdk.Coins
			w.C.App.BankKeeper.IterateTotalSupply(ctx, func(c sdk.Coin) bool {
				bank[c.Denom] = c.Amount.BigInt()
				bankCoins = append(bankCoins, c)
				return false
			})
			var tl enttypes.QueryTotalLockedResponse
			if err := w.C.Query(qEnt+"TotalLocked", &enttypes.QueryTotalLockedRequest{}, &tl); err != nil {
				w.Fail("C17", "TotalLocked failed: %v", err)
				return
			}
			if tl.Amount.Denom != denom && tl.Amount.Amount.Sign() != 0 {
				return // books kept in another denomination after a governance change: C14's subject
			}
			// "the total locked eFUND" is taken from the per-account records (what the accounts really hold locked), not from
			// the module's running total or the escrow balance - the three agree while the books balance (C04), and a
			// supply figure computed from a counter that has drifted is a wrong supply figure
			locked := new(big.Int)
			for _, l := range w.C.App.EnterpriseKeeper.GetAllLockedUnds(ctx) {
				if l.Amount.Denom == denom {
					locked.Add(locked, l.Amount.Amount.BigInt())
				}
			}
			if locked.Cmp(tl.Amount.Amount.BigInt()) != 0 {
				w.Class("c17.total-locked-query-differs-from-sum-of-accounts")
			}
			want := func(d string) *big.Int {
				v := new(big.Int).Set(bank[d])
				if d == denom {
					v.Sub(v, locked)
				}
				return v
			}
			switch {
			case locked.Sign() == 0:
				w.Class("c17.locked-zero")
			case locked.Cmp(bank[denom]) < 0:
				w.Class("c17.locked-partial")
			}
			// SupplyOf and its Overwrite twin, for every denomination the bank knows and one it does not
			// with very many denominations the per-denomination probes take a rotating sample (the native one always)
			stride := len(bankCoins)/12 + 1
			sampled := func(i int, d string) bool { return stride == 1 || d == denom || (i+int(w.C.Height))%stride == 0 }
			for i, d := range append(bankCoins.Denoms(), "nosuchdenom") {
				if !sampled(i, d) {
					continue
				}
				for _, m := range []string{"SupplyOf", "SupplyOfOverwrite"} {
					var r enttypes.QuerySupplyOfResponse
					if err := w.C.Query(qEnt+m, &enttypes.QuerySupplyOfRequest{Denom: d}, &r); err != nil {
						w.Fail("C17", "%s(%s) failed: %v", m, d, err)
						return
					}
					exp := new(big.Int)
					if bank[d] != nil {
						exp = want(d)
					}
					if r.Amount.Denom != d || r.Amount.Amount.BigInt().Cmp(exp) != 0 {
						w.Fail("C17", "%s(%s) = %s, bank supply %v minus locked %s(%s) = %s", m, d, r.Amount, bank[d], locked, denom, exp)
						return
					}
				}
				// and the bank's own figure is what we think it is (differential between the two query services)
				var br banktypes.QuerySupplyOfResponse
				if err := w.C.Query("/cosmos.bank.v1beta1.Query/SupplyOf", &banktypes.QuerySupplyOfRequest{Denom: d}, &br); err == nil && bank[d] != nil {
					if br.Amount.Amount.BigInt().Cmp(bank[d]) != 0 {
						w.Fail("C17", "bank SupplyOf(%s) = %s differs from the supply store %s", d, br.Amount, bank[d])
						return
					}
				}
			}
			// TotalSupply paged to exhaustion under a page plan that cycles with the height
			n := len(bankCoins)
			plan := int(w.C.Height)
			for _, m := range []string{"TotalSupply", "TotalSupplyOverwrite"} {
				got, pages, err := c17Page(w, qEnt+m, plan, n)
				if err != nil {
					w.Fail("C17", "%s (page plan %d): %v", m, plan, err)
					return
				}
				seen := map[string]bool{}
				for _, c := range got {
					if seen[c.Denom] {
						w.Fail("C17", "%s (page plan %d) lists denomination %s twice", m, plan, c.Denom)
						return
					}
					seen[c.Denom] = true
					if bank[c.Denom] == nil || c.Amount.BigInt().Cmp(want(c.Denom)) != 0 {
						w.Fail("C17", "%s (page plan %d) reports %s, expected %s", m, plan, c, want(c.Denom))
						return
					}
				}
				if len(seen) != n {
					w.Fail("C17", "%s (page plan %d, %d pages) lists %d of %d denominations", m, plan, pages, len(seen), n)
					return
				}
				if pages >= 2 && n >= 3 {
					w.Class("c17.multi-page-3-denoms")
				}
			}
			// arbitrary single page requests (any denomination as start key, both directions, any limit): the page the
			// enterprise service serves = the page the bank serves for the same request, native denomination adjusted
			denoms := bankCoins.Denoms()
			if n > 100 {
				w.Class("c17.more-than-100-denominations")
			}
			if n > 200 {
				w.Class("c17.more-than-200-denominations")
			}
			for i, d := range denoms {
				if (plan+i)%2 == 1 || !sampled(i/2, d) {
					continue // half of the start keys per height; the other half at the next height
				}
				for _, rev := range []bool{false, true} {
					pr := &query.PageRequest{Key: []byte(d), Limit: uint64(1 + (plan+i)%(n+1)), Reverse: rev}
					if n > 40 && pr.Limit > 12 && (plan+i)%7 != 0 {
						pr.Limit = 1 + pr.Limit%12 // very many denominations: mostly short pages (a page costs O(limit^2) in the bank keeper)
					}
					if (plan+i)%5 == 0 {
						pr = &query.PageRequest{Offset: uint64(i), Limit: pr.Limit, Reverse: rev, CountTotal: i%2 == 0}
						if (plan+i)%3 == 0 {
							pr.Limit = []uint64{1001, 100000, 1 << 40, 1000}[(plan+i)%4] // "everything from here on"
							w.Class("c17.offset-page-with-huge-limit")
						}
					}
					var br banktypes.QueryTotalSupplyResponse
					if err := w.C.Query("/cosmos.bank.v1beta1.Query/TotalSupply", &banktypes.QueryTotalSupplyRequest{Pagination: pr}, &br); err != nil {
						continue
					}
					for _, m := range []string{"TotalSupply", "TotalSupplyOverwrite"} {
						var er enttypes.QueryTotalSupplyResponse
						if err := w.C.Query(qEnt+m, &enttypes.QueryTotalSupplyRequest{Pagination: pr}, &er); err != nil {
							w.Fail("C17", "%s(%+v) failed: %v (the bank serves this request)", m, *pr, err)
							return
						}
						if len(er.Supply) != len(br.Supply) {
							w.Fail("C17", "%s(key=%q offset=%d limit=%d reverse=%v) lists %s, the bank lists %s for the same request", m, pr.Key, pr.Offset, pr.Limit, pr.Reverse, er.Supply, br.Supply)
							return
						}
						for j, c := range br.Supply {
							g := er.Supply[j]
							if g.Denom != c.Denom || g.Amount.BigInt().Cmp(want(c.Denom)) != 0 {
								w.Fail("C17", "%s(key=%q offset=%d limit=%d reverse=%v) reports %s at position %d, expected %s%s (bank supply %s, locked %s%s)", m, pr.Key, pr.Offset, pr.Limit, pr.Reverse, g, j, want(c.Denom), c.Denom, c.Amount, locked, denom)
								return
							}
						}
						bn, en := []byte(nil), []byte(nil)
						bt, et := uint64(0), uint64(0)
						if br.Pagination != nil {
							bn, bt = br.Pagination.NextKey, br.Pagination.Total
						}
						if er.Pagination != nil {
							en, et = er.Pagination.NextKey, er.Pagination.Total
						}
						if string(bn) != string(en) || bt != et {
							w.Fail("C17", "%s(key=%q offset=%d limit=%d reverse=%v) answers next_key=%q total=%d, the bank answers next_key=%q total=%d", m, pr.Key, pr.Offset, pr.Limit, pr.Reverse, en, et, bn, bt)
							return
						}
						w.Class("c17.single-page-probe")
						if rev && pr.Key != nil && d > denom {
							w.Class("c17.reverse-page-from-key-above-native")
						}
					}
				}
			}
			// the node's REST gateway (the application's own route registration, served in process): the bank module's
			// supply endpoints must be answered with the enterprise figures
			if plan%4 == 0 {
				gw, _ := w.Notes["c17.gateway"].(*Gateway)
				if gw == nil {
					g, err := NewGateway(w.C)
					if err != nil {
						w.Class("c17.gateway-unavailable")
					} else {
						gw = g
						w.Notes["c17.gateway"] = g
					}
				}
				if gw != nil {
					if msg := c17Gateway(gw, []string{denom, denoms[plan%n]}, want, n); msg != "" {
						w.Fail("C17", "REST gateway: %s (bank supply of %s is %s, locked %s)", msg, denom, bank[denom], locked)
						return
					}
					w.Class("c17.rest-gateway-probe")
					if locked.Sign() > 0 {
						w.Class("c17.rest-gateway-probe-with-locked")
					}
				}
			}
			// TotalUnlocked and EnterpriseSupply
			var tu enttypes.QueryTotalUnlockedResponse
			if err := w.C.Query(qEnt+"TotalUnlocked", &enttypes.QueryTotalUnlockedRequest{}, &tu); err != nil {
				w.Fail("C17", "TotalUnlocked failed: %v", err)
				return
			}
			if tu.Amount.Amount.BigInt().Cmp(want(denom)) != 0 || tu.Amount.IsNegative() {
				w.Fail("C17", "TotalUnlocked = %s, expected total %s - locked %s", tu.Amount, bank[denom], locked)
				return
			}
			var es enttypes.QueryEnterpriseSupplyResponse
			err := w.C.Query(qEnt+"EnterpriseSupply", &enttypes.QueryEnterpriseSupplyRequest{}, &es)
			if bank[denom].IsUint64() {
				if err != nil {
					w.Fail("C17", "EnterpriseSupply failed: %v", err)
					return
				}
				s := es.Supply
				if s.Total != bank[denom].Uint64() || s.Locked != locked.Uint64() || s.Amount != want(denom).Uint64() || s.Locked+s.Amount != s.Total || s.Denom != denom {
					w.Fail("C17", "EnterpriseSupply = %+v, expected total %s locked %s unlocked %s", s, bank[denom], locked, want(denom))
					return
				}
			} else {
				w.Class("c17.supply-above-2^64")
				if err == nil {
					s := es.Supply
					if new(big.Int).SetUint64(s.Total).Cmp(bank[denom]) != 0 {
						w.Fail("C17", "EnterpriseSupply serves total %d while the supply is %s (does not fit its uint64 field)", s.Total, bank[denom])
						return
					}
				}
			}
		},
	})
}
