package sim

import "math/big"

// RegParamsM are the WRKChain/BEACON parameters in force.
type RegParamsM struct {
	FeeReg, FeeRec, FeePur uint64
	Denom                  string
	DefLimit, MaxLimit     uint64
}

// Record is one accepted hash/timestamp submission.
type Record struct {
	Key     uint64   // WRKChain: height; BEACON: timestamp id
	Fields  []string // WRKChain: block,parent,h1,h2,h3; BEACON: hash
	Time    uint64   // WRKChain: block time of submission; BEACON: submitted time
	Pruned  bool
}

type Registration struct {
	ID      uint64
	Owner   string // address key
	OwnerStr string
	Fields  []string // WRKChain: moniker,name,genesis,type; BEACON: moniker,name
	RegTime uint64
	Limit   *big.Int // exact; the chain's uint64 is compared with it
	Records []*Record // every record ever accepted, in acceptance order
	LastKey uint64
	Total   uint64
	// LimitGrew: the limit was raised since the last prune (closed form and
	// evolution of C08 differ only then; the evolution is what is asserted).
}

func (r *Registration) Retained() []*Record {
	var out []*Record
	for _, x := range r.Records {
		if !x.Pruned {
			out = append(out, x)
		}
	}
	return out
}

// RegModel is the reference model shared by WRKChain and BEACON (statements of
// C07, C08, C09).
type RegModel struct {
	Beacon bool
	P      RegParamsM
	Regs   []*Registration // ascending id
	NextID uint64
}

func NewRegModel(beacon bool, startID uint64) *RegModel {
	return &RegModel{Beacon: beacon, NextID: startID}
}

func (m *RegModel) Reg(id uint64) *Registration {
	for _, r := range m.Regs {
		if r.ID == id {
			return r
		}
	}
	return nil
}

func (m *RegModel) ApplyRegister(owner, ownerStr string, fields []string, now uint64) *Registration {
	r := &Registration{ID: m.NextID, Owner: owner, OwnerStr: ownerStr, Fields: fields, RegTime: now, Limit: new(big.Int).SetUint64(m.P.DefLimit)}
	m.Regs = append(m.Regs, r)
	m.NextID++
	return r
}

// ExpectRecord: WRKChain key = height, BEACON key ignored.
func (m *RegModel) ExpectRecord(actor string, id uint64, height uint64) Expect {
	r := m.Reg(id)
	if r == nil {
		return reject("record against an unknown identifier", "C09")
	}
	if r.Owner != actor {
		return reject("record by someone other than the owner", "C09", "C13")
	}
	if !m.Beacon && height <= r.LastKey {
		return reject("height not strictly above the last recorded height", "C07")
	}
	return either()
}

// ApplyRecord inserts the record and then drops the single oldest retained
// record if the retained count exceeds the current limit.
func (m *RegModel) ApplyRecord(id uint64, height uint64, fields []string, t uint64) *Record {
	r := m.Reg(id)
	if r == nil {
		return nil
	}
	key := height
	if m.Beacon {
		key = r.LastKey + 1
	}
	rec := &Record{Key: key, Fields: fields, Time: t}
	r.Records = append(r.Records, rec)
	r.LastKey = key
	r.Total++
	ret := r.Retained()
	if big.NewInt(int64(len(ret))).Cmp(r.Limit) > 0 {
		ret[0].Pruned = true
	}
	return rec
}

func (m *RegModel) ExpectPurchase(actor string, id uint64, n uint64) Expect {
	r := m.Reg(id)
	if r == nil {
		return reject("purchase against an unknown identifier", "C09")
	}
	if r.Owner != actor {
		return reject("purchase by someone other than the owner", "C09", "C13")
	}
	after := new(big.Int).Add(r.Limit, new(big.Int).SetUint64(n))
	if after.Cmp(new(big.Int).SetUint64(m.P.MaxLimit)) > 0 {
		return reject("purchase would raise the limit above the maximum in force", "C08")
	}
	return either()
}

func (m *RegModel) ApplyPurchase(id uint64, n uint64) {
	r := m.Reg(id)
	if r == nil {
		return
	}
	r.Limit = new(big.Int).Add(r.Limit, new(big.Int).SetUint64(n))
}

// MaxPurchasable = max(0, maximum - limit).
func (m *RegModel) MaxPurchasable(r *Registration) *big.Int {
	d := new(big.Int).Sub(new(big.Int).SetUint64(m.P.MaxLimit), r.Limit)
	if d.Sign() < 0 {
		return new(big.Int)
	}
	return d
}
