package sim

import (
	"fmt"
	"os"
	"strconv"
	"testing"

	"verifharness/lab"
)

// TestC03Exhaustive enumerates ALL operation sequences over a small alphabet
// (small-scope complement of the random search): decisions of two signers on one
// or two concurrent orders, 1 s ticks, ticks past the deadline, governance
// toggling MinAccepts 1<->2 and dropping the second signer. Every sequence runs
// on a fresh chain through the same executor and oracle as the random check.

type exLetter struct {
	name string
	kind int // 0 decide, 1 tick, 2 tick past deadline, 3 toggle min accepts, 4 drop signer 2
	sig  int
	acc  bool
	ord  int
}

func exGenesis() lab.GenesisCfg {
	accts := make([]lab.AcctCfg, 6)
	for i := range accts {
		accts[i] = lab.AcctCfg{Kind: lab.KindBase, Bal: map[string]string{"nund": "1000000000000000", "stake": "1000000000"}}
	}
	return lab.GenesisCfg{
		Accounts:  accts,
		Ent:       lab.EntCfg{Signers: []int{1, 2}, MinAccepts: 2, TimeLimit: 30, Denom: "nund", Whitelist: []int{3}, StartID: 1},
		Wrk:       lab.RegCfg{FeeReg: 1000, FeeRec: 10, FeePur: 5, Denom: "nund", DefLimit: 2, MaxLimit: 6, StartID: 1},
		Bcn:       lab.RegCfg{FeeReg: 1000, FeeRec: 10, FeePur: 5, Denom: "nund", DefLimit: 2, MaxLimit: 6, StartID: 1},
		StreamFee: "0.01",
		MaxGas:    -1,
	}
}

func exScenario(seq []exLetter, orders int) *Scenario {
	s := &Scenario{Gen: exGenesis()}
	raise := Block{DtMs: 1000}
	for i := 0; i < orders; i++ {
		raise.Txs = append(raise.Txs, Tx{Ops: []Op{{Kind: EntRaise, Actor: -1, Named: -1, Peer: 0, Amt: strconv.Itoa(1000 + i)}}})
	}
	s.Blocks = append(s.Blocks, raise)
	signers, minAcc := []int{1, 2}, uint64(2)
	gov := func() {
		pp := &ParamsPatch{Signers: append([]int{}, signers...), MinAccepts: minAcc, TimeLimit: 30, Denom: "nund"}
		s.Blocks = append(s.Blocks, Block{DtMs: 1000, Txs: []Tx{{Ops: []Op{{Kind: ParamsEnt, Actor: -1, Named: -1, P: pp}}, Wrap: WrapGov}}})
		s.Blocks = append(s.Blocks, Block{DtMs: 11000})
	}
	for _, l := range seq {
		switch l.kind {
		case 0:
			// the l.sig-th account of the ORIGINAL signer set decides (it may have been dropped meanwhile)
			s.Blocks = append(s.Blocks, Block{DtMs: 1000, Txs: []Tx{{Ops: []Op{{Kind: EntDecide, Actor: 1 + l.sig, Named: -1, Peer: l.sig, Ref: l.ord, Rule: 1, Flag: l.acc}}}}})
		case 1:
			s.Blocks = append(s.Blocks, Block{DtMs: 1000})
		case 2:
			s.Blocks = append(s.Blocks, Block{DtMs: 31000})
		case 3:
			if minAcc == 2 {
				minAcc = 1
			} else if len(signers) >= 2 {
				minAcc = 2
			}
			gov()
		case 4:
			signers = []int{1}
			minAcc = 1
			gov()
		}
	}
	s.Blocks = append(s.Blocks, Block{DtMs: 1000}, Block{DtMs: 1000})
	return s
}

func exAlphabet(orders int) []exLetter {
	var a []exLetter
	for o := 0; o < orders; o++ {
		for sg := 0; sg < 2; sg++ {
			a = append(a, exLetter{name: fmt.Sprintf("acc(s%d,o%d)", sg+1, o+1), kind: 0, sig: sg, acc: true, ord: o})
			a = append(a, exLetter{name: fmt.Sprintf("rej(s%d,o%d)", sg+1, o+1), kind: 0, sig: sg, acc: false, ord: o})
		}
	}
	a = append(a, exLetter{name: "tick1s", kind: 1}, exLetter{name: "tickPastDeadline", kind: 2}, exLetter{name: "toggleMinAccepts", kind: 3}, exLetter{name: "dropSigner2", kind: 4})
	return a
}

func TestC03Exhaustive(t *testing.T) {
	nsh, _ := strconv.Atoi(os.Getenv("VERIF_NSHARDS"))
	idx, _ := strconv.Atoi(os.Getenv("VERIF_SHARD_INDEX"))
	if nsh <= 0 {
		nsh = 1
	}
	maxLen1, maxLen2 := 5, 4
	if v, err := strconv.Atoi(os.Getenv("VERIF_C03_MAXLEN")); err == nil && v > 0 {
		maxLen1, maxLen2 = v, v-1
	}
	cfg := cfgC03
	ev := NewEvidence("C03", "exhaustive small scope: every sequence over {accept/reject by s1,s2 per order; tick 1 s; tick past deadline; toggle MinAccepts 1<->2; drop signer 2} of length <= 5 with one order (8 letters) and length <= 4 with two concurrent orders (12 letters); non-trivial = the order set reaches a terminal status")
	ev.Exhaustive = true
	fs := &failState{}
	defer ev.Flush()
	count := 0
	var run func(alpha []exLetter, orders int, seq []exLetter, maxLen int)
	run = func(alpha []exLetter, orders int, seq []exLetter, maxLen int) {
		if t.Failed() {
			return
		}
		if len(seq) > 0 {
			count++
			if count%nsh == idx {
				s := exScenario(seq, orders)
				viol, w, err := RunCase(&cfg, s, lab.NodeOpts{DB: "mem"}, ev, false)
				if err != nil {
					t.Fatalf("genesis refused: %v", err)
				}
				nt := w.Classes["c03.completed"]+w.Classes["c03.rejected"] > 0
				ev.Eval(s.Hash(), nt)
				ev.AddClasses(map[string]int{"c03x.sequences": 1, "c03x.completed": w.Classes["c03.completed"], "c03x.rejected": w.Classes["c03.rejected"]})
				if count < 50 {
					names := ""
					for _, l := range seq {
						names += l.name + " "
					}
					ev.Sample(map[string]interface{}{"orders": orders, "sequence": names}, 4)
				}
				if len(viol) > 0 {
					_, w2, _ := RunCase(&cfg, s, lab.NodeOpts{DB: "mem"}, nil, true)
					fs.offer("C03", s, viol, w2.Trace)
					t.Fatalf("C03 violated on an enumerated sequence: %s", viol[0].Msg)
				}
			}
		}
		if len(seq) == maxLen {
			return
		}
		for _, l := range alpha {
			run(alpha, orders, append(append([]exLetter{}, seq...), l), maxLen)
		}
	}
	run(exAlphabet(1), 1, nil, maxLen1)
	run(exAlphabet(2), 2, nil, maxLen2)
	ev.Extra["exhaustive_sequences_total"] = count
}
