package sim

import (
	"fmt"
	"math/big"
	"os"
	"sort"
	"strings"

	abci "github.com/cometbft/cometbft/abci/types"
	sdk "github.com/cosmos/cosmos-sdk/types"
	"github.com/cosmos/cosmos-sdk/x/authz"

	"verifharness/lab"
)

const DefaultGas = 5_000_000

// ExpectedFees is the independent fee oracle (C06): it walks the operations of a
// transaction, including those nested in authorisation-exec wrappers, and sums
// per fee denomination the registration, record and per-slot storage fees of the
// parameters in force.
func (w *World) ExpectedFees(ops []*BuiltOp) map[string]*big.Int {
	out := map[string]*big.Int{}
	add := func(d string, v *big.Int) {
		if out[d] == nil {
			out[d] = new(big.Int)
		}
		out[d].Add(out[d], v)
	}
	for _, o := range ops {
		var p RegParamsM
		switch o.Module {
		case "wrk":
			p = w.Wrk.P
		case "bcn":
			p = w.Bcn.P
		default:
			continue
		}
		switch o.Op.Kind {
		case WrkReg, BcnReg:
			add(p.Denom, new(big.Int).SetUint64(p.FeeReg))
		case WrkRec, BcnRec:
			add(p.Denom, new(big.Int).SetUint64(p.FeeRec))
		case WrkPur, BcnPur:
			add(p.Denom, new(big.Int).Mul(new(big.Int).SetUint64(p.FeePur), new(big.Int).SetUint64(o.U64)))
		}
	}
	return out
}

const extraDenom = "stake"

func coinsFrom(m map[string]*big.Int) sdk.Coins {
	var cs sdk.Coins
	ds := make([]string, 0, len(m))
	for d := range m {
		ds = append(ds, d)
	}
	sort.Strings(ds)
	for _, d := range ds {
		if m[d].Sign() > 0 {
			cs = append(cs, sdk.Coin{Denom: d, Amount: toInt(m[d])})
		}
	}
	return cs.Sort()
}

func (w *World) feeFor(t *Tx, ops []*BuiltOp) sdk.Coins {
	exp := w.ExpectedFees(ops)
	primary := w.Ent.P.Denom
	for _, o := range ops {
		if o.Module == "wrk" {
			primary = w.Wrk.P.Denom
			break
		}
		if o.Module == "bcn" {
			primary = w.Bcn.P.Denom
			break
		}
	}
	m := map[string]*big.Int{}
	for d, v := range exp {
		m[d] = new(big.Int).Set(v)
	}
	delta := parseBig(t.Fee.Amt)
	if delta.Sign() <= 0 {
		delta = big.NewInt(1)
	}
	extra := parseBig(t.Fee.Extra)
	if extra.Sign() <= 0 {
		extra = big.NewInt(1)
	}
	lower := func() {
		if m[primary] == nil {
			return
		}
		v := new(big.Int).Sub(m[primary], delta)
		if v.Sign() <= 0 {
			v = new(big.Int).Quo(m[primary], big2)
		}
		m[primary] = v
	}
	higher := func() {
		if m[primary] == nil {
			m[primary] = new(big.Int)
		}
		m[primary] = new(big.Int).Add(m[primary], delta)
	}
	switch t.Fee.Mode {
	case FeeExact:
	case FeeNone:
		return sdk.Coins{}
	case FeeLower:
		lower()
	case FeeHigher:
		higher()
	case FeeExactPlusExtraDenom:
		m[extraDenom] = extra
	case FeeOnlyExtraDenom:
		m = map[string]*big.Int{extraDenom: extra}
	case FeeLowerPlusExtraDenom:
		lower()
		m[extraDenom] = extra
	case FeeHigherPlusExtraDenom:
		higher()
		m[extraDenom] = extra
	case FeeLiteral:
		m = map[string]*big.Int{primary: parseBig(t.Fee.Amt)}
	case FeeSubset:
		var feeOps []*BuiltOp
		for _, o := range ops {
			if o.IsFeeOp {
				feeOps = append(feeOps, o)
			}
		}
		mask := parseBig(t.Fee.Amt).Uint64()
		var sub []*BuiltOp
		for i, o := range feeOps {
			if mask&(1<<uint(i%60)) != 0 {
				sub = append(sub, o)
			}
		}
		if len(sub) == 0 && len(feeOps) > 0 {
			sub = feeOps[len(feeOps)-1:]
		}
		if len(sub) == len(feeOps) && len(feeOps) > 1 {
			sub = sub[1:]
		}
		m = w.ExpectedFees(sub)
	case FeeFirstModuleOnly:
		var first []*BuiltOp
		mod := ""
		for _, o := range ops {
			if o.IsFeeOp && (mod == "" || o.Module == mod) {
				mod = o.Module
				first = append(first, o)
			}
		}
		m = w.ExpectedFees(first)
	}
	return coinsFrom(m)
}

// expandOps: an enterprise decision with Rule 2 ("batch approval") stands for one decision message per order that is
// still raised and that the signer has not decided yet (at most 40), all in this transaction.
func (w *World) expandOps(in []Op) []Op {
	out := make([]Op, 0, len(in))
	for _, op := range in {
		if op.Kind != EntDecide || op.Rule != 2 {
			out = append(out, op)
			continue
		}
		probe := op
		probe.Rule = 0
		signer := w.buildOp(&probe).Named.Key()
		n := 0
		for _, o := range w.Ent.Orders {
			if o.Status != StRaised || n >= 40 {
				continue
			}
			decided := false
			for _, d := range o.Decisions {
				if d.Signer == signer {
					decided = true
				}
			}
			if decided {
				continue
			}
			e := op
			e.Rule, e.Lit = 3, o.ID
			out = append(out, e)
			n++
		}
		if n == 0 {
			out = append(out, probe)
		} else {
			w.Class("op.batch-decision")
			if n > 25 {
				w.Class("op.batch-decision-over-25-orders")
			}
		}
	}
	return out
}

// HasTopLevelFeeOp: the transaction carries a WRKChain/BEACON message at top level (where the ante decorators see it).
func (bt *BuiltTx) HasTopLevelFeeOp() bool {
	switch bt.Tx.Wrap {
	case WrapTop:
		for _, o := range bt.Ops {
			if o.IsFeeOp {
				return true
			}
		}
	case WrapExecTail:
		return len(bt.Ops) > 0 && bt.Ops[0].IsFeeOp
	}
	return false
}

// BuildTx resolves, wraps, prices and signs a transaction against the current state.
func (w *World) BuildTx(t *Tx, forCheck bool) *BuiltTx {
	bt := &BuiltTx{Tx: t, Snap: map[string]interface{}{}}
	var msgs []sdk.Msg
	var signers []Addr
	seen := map[string]bool{}
	verdict := MustAccept
	var props []string
	why := ""
	wrapped := t.Wrap == WrapExec || t.Wrap == WrapExec2
	granteeIdx := t.Grantee
	ops := w.expandOps(t.Ops)
	for i := range ops {
		if t.Wrap == WrapExecTail && t.TailSelf && i > 0 && granteeIdx >= 0 {
			ops[i].Actor, ops[i].Named = granteeIdx, -1
			w.Class("tx.exec-tail-in-the-first-signer's-own-name")
		}
		bo := w.buildOp(&ops[i])
		bt.Ops = append(bt.Ops, bo)
		if wrapped && granteeIdx < 0 {
			// grantee -1: an account holding a grant from the named party, if there is one
			granteeIdx = (bo.Named.Acct.Idx + 1) % w.NAcc
			for j := 0; j < w.NAcc; j++ {
				if w.Grants[bo.Named.Key()+"|"+w.acct(j).Key()] {
					granteeIdx = j
					break
				}
			}
		}
		msgs = append(msgs, bo.Msg)
		if !seen[bo.Signer.Key()] {
			seen[bo.Signer.Key()] = true
			signers = append(signers, bo.Signer)
		}
		e := bo.Expect
		if t.Wrap == WrapExecTail && i == 0 && bo.Signer.Acct != nil {
			granteeIdx = bo.Signer.Acct.Idx
		}
		if wrapped || (t.Wrap == WrapExecTail && i > 0 && granteeIdx >= 0) {
			// inside an exec wrapper the named party does not sign; it must have granted the grantee
			e = bo.ModelExpect
			grantee := w.acct(granteeIdx)
			if bo.Named.Key() != grantee.Key() && !w.Grants[bo.Named.Key()+"|"+grantee.Key()] {
				e = reject("exec by a grantee without a grant from the named party", "C13")
			}
		}
		// predictions are made against the transaction's pre-state: for the second and later
		// messages only the state-independent reason (signature cannot verify) stays a Must
		if i > 0 && e.Verdict == MustReject && !stableReject[e.Why] {
			e = either()
		}
		switch e.Verdict {
		case MustReject:
			if verdict != MustReject {
				verdict = MustReject
				props = e.Props
				why = e.Why
			}
		case Either:
			if verdict == MustAccept {
				verdict = Either
			}
		case MustAccept:
			if verdict == MustAccept {
				props = append(props, e.Props...)
				why = e.Why
			}
		}
	}
	// multi-op transactions: a later op may depend on an earlier one of the same
	// tx; the per-op predictions were made against the pre-state, so a
	// must-accept is only kept for single-op transactions.
	if len(ops) > 1 && verdict == MustAccept {
		verdict = Either
	}
	switch t.Wrap {
	case WrapExecTail:
		if len(msgs) >= 2 && granteeIdx >= 0 {
			grantee := w.acct(granteeIdx)
			exec := authz.NewMsgExec(grantee.Bytes, msgs[1:])
			msgs = []sdk.Msg{msgs[0], &exec}
			signers = []Addr{bt.Ops[0].Signer}
			w.Class("tx.top-level-message-plus-exec-tail")
		}
	case WrapExec, WrapExec2:
		grantee := w.acct(granteeIdx)
		exec := authz.NewMsgExec(grantee.Bytes, msgs)
		msgs = []sdk.Msg{&exec}
		if t.Wrap == WrapExec2 {
			exec2 := authz.NewMsgExec(grantee.Bytes, msgs)
			msgs = []sdk.Msg{&exec2}
		}
		signers = []Addr{grantee}
	case WrapGov:
		veto := len(t.Ops) > 0 && t.Ops[0].Flag && t.Ops[0].P != nil // (Flag means something else for the other operations)
		if veto {
			w.Class("gov.vetoed-proposal")
		}
		gm, proposer, err := w.govWrap(msgs, veto)
		if err != nil {
			bt.BuildErr = err
			return bt
		}
		msgs = gm
		signers = []Addr{proposer}
		verdict, props, why = Either, nil, ""
	}
	var signOver []sdk.Msg
	fault := t.Fault
	if fault == lab.FaultTamper {
		// somebody alters one field of the first message after the transaction was signed
		var alt sdk.Msg
		if t.Wrap == WrapTop && len(msgs) > 0 {
			alt = w.tamperMsg(msgs[0], t.TamperK)
		}
		if alt == nil {
			fault = lab.FaultWrongKey
		} else {
			signOver = msgs
			msgs = append([]sdk.Msg{alt}, msgs[1:]...)
			w.Class("tx.altered-after-signing")
			if t.Amino {
				w.Class("tx.altered-after-signing.amino-json")
			}
		}
	}
	if fault != lab.FaultNone {
		verdict, props, why = MustReject, []string{"C13"}, "transaction signature / sequence / chain-id is invalid"
		if fault == lab.FaultTamper {
			why = "the message that is sent differs from the message the signer signed"
		}
		if fault != lab.FaultWrongKey && fault != lab.FaultTamper {
			props = nil
		}
	}
	bt.Expect = Expect{Verdict: verdict, Props: props, Why: why}
	var explicitPayer sdk.AccAddress
	if t.FeePayer > 0 && len(signers) > 0 {
		// an explicit fee payer co-signs (after the message signers, unless it is one of them)
		fp := w.acct(t.FeePayer - 1)
		already := false
		for _, s := range signers {
			if s.Key() == fp.Key() {
				already = true
			}
		}
		if !already {
			signers = append(signers, fp)
		}
		explicitPayer = fp.Bytes
		w.Class("tx.with-explicit-fee-payer")
	}
	bt.Signers = signers
	if bt.Expect.Verdict == MustReject && bt.Expect.Why == "message names an account that did not sign the transaction" && t.Wrap == WrapTop && fault == lab.FaultNone {
		// per message, "named != the message's own signer" - but the named account may sign the transaction anyway
		// (it is the signer of another message) and the message's own signer may be a required signer too (the explicit
		// fee payer): then every named account signed and every signature is required, and the reason does not apply
		in := map[string]bool{}
		for _, sg := range signers {
			in[sg.Key()] = true
		}
		all := true
		for _, o := range bt.Ops {
			if !in[o.Named.Key()] {
				all = false
			}
		}
		if all {
			bt.Expect = Expect{Verdict: Either}
			w.Class("tx.named-account-signs-through-another-message")
		}
	}
	if len(signers) > 0 {
		bt.Payer = signers[0]
	}
	if explicitPayer != nil {
		bt.Payer = w.acct(t.FeePayer - 1)
	}
	bt.Fee = w.feeFor(t, bt.Ops)
	gas := t.Gas
	if gas == 0 {
		gas = DefaultGas
	}
	spec := lab.TxSpec{Msgs: msgs, Fee: bt.Fee, Gas: gas, Fault: fault, Payer: explicitPayer, Amino: t.Amino, SignOver: signOver}
	if t.Amino {
		w.Class("tx.signed-amino-json")
	}
	for _, s := range signers {
		if s.Acct == nil {
			bt.BuildErr = fmt.Errorf("signer %s has no key", s.Name)
			return bt
		}
		spec.Signers = append(spec.Signers, s.Acct)
	}
	if fault == lab.FaultWrongKey {
		spec.WrongKeyWith = w.acct(signers[0].Acct.Idx + 1).Acct // the first signer's signature is made with another account's key
	}
	if t.Granter > 0 {
		g := w.acct(t.Granter - 1)
		spec.Granter = g.Bytes
	} else if t.Granter < 0 {
		// -1: somebody who granted the payer a fee allowance, if there is one
		keys := make([]string, 0, len(w.FeeGrants))
		for k := range w.FeeGrants {
			keys = append(keys, k)
		}
		sort.Strings(keys)
		for _, k := range keys {
			if strings.HasSuffix(k, "|"+bt.Payer.Key()) {
				gk := strings.TrimSuffix(k, "|"+bt.Payer.Key())
				spec.Granter = w.addrByKey(gk).Bytes
				bt.Granter = w.addrByKey(gk)
				w.Class("tx.with-fee-granter")
				break
			}
		}
	}
	if t.Granter > 0 {
		bt.Granter = w.acct(t.Granter - 1)
	}
	ctx := w.C.Ctx()
	if forCheck {
		ctx = w.C.CheckCtx()
	}
	bt.Bytes, bt.BuildErr = w.C.BuildTx(ctx, spec)
	return bt
}

// stableReject: reasons for a refusal that no earlier message of the same transaction can remove (ownership and the
// signer set do not change inside a transaction, recorded heights and limits only grow, decisions only accumulate, order
// statuses move in begin-block only). The other reasons (unknown identifier, purchaser not whitelisted, stream not
// there, missing authz grant) can be cured by an earlier message.
var stableReject = map[string]bool{
	"message names an account that did not sign the transaction": true,
	"record by someone other than the owner":                     true,
	"purchase by someone other than the owner":                   true,
	"decider is not a currently authorised signer":               true,
	"whitelist change by a non-signer":                           true,
	"parameter update not issued by the governance authority":    true,
	"signer already decided on this order":                       true,
	"order is not in raised status":                              true,
	"height not strictly above the last recorded height":         true,
	"purchase would raise the limit above the maximum in force":  true,
	"exec by a grantee without a grant from the named party":     true,
}

func evs(in []abci.Event) []sdkEvent {
	out := make([]sdkEvent, 0, len(in))
	for _, e := range in {
		m := map[string]string{}
		for _, a := range e.Attributes {
			m[a.Key] = a.Value
		}
		out = append(out, sdkEvent{Type: e.Type, Attrs: m})
	}
	return out
}

// RunTx builds and executes one transaction and compares the result with the models.
func (w *World) RunTx(t *Tx) *BuiltTx {
	checkOnly := t.Check
	bt := w.BuildTx(t, checkOnly)
	desc := ""
	for i, o := range bt.Ops {
		if i > 0 {
			desc += "; "
		}
		desc += o.Desc
	}
	if bt.BuildErr != nil {
		w.tracef("  tx (unbuildable: %v) %s", bt.BuildErr, desc)
		w.Class("tx.unbuildable")
		if t.Amino {
			w.Class("tx.unbuildable.amino-json")
			if os.Getenv("VERIF_DEBUG_BUILD") != "" {
				fmt.Println("UNBUILDABLE-AMINO:", short(bt.BuildErr.Error()))
			}
		}
		return bt
	}
	for _, h := range w.hooks {
		if h.BeforeTx != nil {
			h.BeforeTx(w, bt)
		}
	}
	if checkOnly {
		if !w.SkipCheckTx {
			r, pan := w.C.CheckTx(bt.Bytes)
			if pan != nil {
				w.Fail("C14", "CheckTx panicked outside the recovery middleware: %v", pan)
				return bt
			}
			bt.CheckRes = &TxResult{Code: r.Code, Codespace: r.Codespace, Data: r.Data, GasWanted: r.GasWanted, GasUsed: r.GasUsed}
			bt.CheckLog = r.Log
			w.tracef("  checktx code=%d fee=%s wrap=%d %s", r.Code, bt.Fee, t.Wrap, desc)
		}
	} else {
		seqBefore := map[string]uint64{}
		ctx := w.C.Ctx()
		for _, s := range bt.Signers {
			_, seqBefore[s.Key()] = w.C.AccountNumSeq(ctx, s.Bytes)
		}
		r, pan := w.C.DeliverTx(bt.Bytes)
		if pan != nil {
			w.Fail("C14", "DeliverTx panicked outside the recovery middleware: %v", pan)
			return bt
		}
		bt.Delivered = true
		bt.Res = TxResult{Code: r.Code, Codespace: r.Codespace, Data: r.Data, GasWanted: r.GasWanted, GasUsed: r.GasUsed}
		bt.Log = r.Log
		bt.OK = r.Code == 0
		bt.Panicked = r.Code == ErrPanicCode
		bt.Events = evs(r.Events)
		w.TxResults = append(w.TxResults, bt.Res)
		// "passed all pre-execution checks" is observed as: every signer's sequence was incremented
		ctx = w.C.Ctx()
		bt.AntePassed = len(bt.Signers) > 0
		for _, s := range bt.Signers {
			_, after := w.C.AccountNumSeq(ctx, s.Bytes)
			if after != seqBefore[s.Key()]+1 {
				bt.AntePassed = false
			}
		}
		logs := r.Log
		if len(logs) > 120 && os.Getenv("VERIF_LONGLOG") == "" {
			logs = logs[:120]
		}
		if bt.OK {
			logs = ""
		}
		w.tracef("  tx code=%d wrap=%d fault=%d fee=%s %s %s", r.Code, t.Wrap, t.Fault, bt.Fee, desc, logs)
		w.judge(bt)
		if os.Getenv("VERIF_DEBUG_GOV") != "" && t.Wrap == WrapGov && len(bt.Ops) > 0 && bt.Ops[0].Op.Rule == 9 {
			fmt.Println("GOV9:", bt.Ops[0].Op.Kind, r.Code, short(r.Log))
		}
		if len(bt.Ops) == 1 && t.Wrap == WrapTop && t.Fault == 0 {
			if bt.OK {
				w.Class("ok." + bt.Ops[0].Op.Kind)
			} else {
				w.Class(fmt.Sprintf("fail.%s.%s/%d", bt.Ops[0].Op.Kind, bt.Res.Codespace, bt.Res.Code))
			}
		}
		if bt.OK {
			if t.Wrap == WrapGov {
				for _, o := range bt.Ops {
					w.Proposals = append(w.Proposals, &Proposal{ID: w.NextPropID, Op: *o.Op})
				}
				w.NextPropID++
			} else {
				for _, o := range bt.Ops {
					if o.Apply != nil {
						o.Apply(w)
					}
				}
			}
		}
	}
	if bt.Delivered && len(bt.Ops) > 25 && bt.Ops[0].Op.Kind == EntDecide && bt.Ops[0].Op.Rule == 3 {
		if bt.OK {
			w.Class(fmt.Sprintf("tx.batch-decision-over-25.ok.accept=%v", bt.Ops[0].Op.Flag))
		} else {
			w.Class(fmt.Sprintf("tx.batch-decision-over-25.failed.%s/%d", bt.Res.Codespace, bt.Res.Code))
		}
	}
	if checkOnly || (bt.Delivered && !bt.OK) {
		for _, o := range bt.Ops {
			switch o.Op.Kind {
			case WrkRec, BcnRec, WrkPur, BcnPur:
				if !o.LiveTarget && o.ID != 0 && o.Signer.Acct != nil && len(w.Ghosts) < 64 {
					w.Ghosts = append(w.Ghosts, Ghost{Module: o.Module, ID: o.ID, Actor: o.Signer.Acct.Idx})
				}
			}
		}
	}
	for _, o := range bt.Ops {
		if o.Op.Ref == -4 && len(bt.Ops) > 1 {
			switch {
			case checkOnly:
				w.Class("tx.forward-ref.check-only")
			case bt.OK:
				w.Class("tx.forward-ref.committed")
			default:
				w.Class(fmt.Sprintf("tx.forward-ref.rolled-back.%s/%d", bt.Res.Codespace, bt.Res.Code))
			}
			break
		}
	}
	for _, h := range w.hooks {
		if h.AfterTx != nil {
			h.AfterTx(w, bt)
		}
	}
	return bt
}

// judge compares the delivered result with the tri-state expectation.
func (w *World) judge(bt *BuiltTx) {
	e := bt.Expect
	switch {
	case e.Verdict == MustReject && bt.OK:
		props := e.Props
		if len(props) == 0 {
			props = []string{"C13"}
		}
		for _, p := range props {
			sig := acceptSignature(w, bt, p)
			if sig != "" {
				w.FailSig(p, sig, "accepted although the statement forbids it: %s", e.Why)
			} else {
				w.Fail(p, "accepted although the statement forbids it: %s", e.Why)
			}
		}
		// the models did not expect this transition; they are no longer a sound reference
		w.Diverged = true
	case e.Verdict == MustAccept && !bt.OK:
		for _, p := range e.Props {
			sig := rejectSignature(w, bt, p)
			if sig != "" {
				w.FailSig(p, sig, "rejected (code %d %s) although the statement requires success: %s", bt.Res.Code, short(bt.Log), e.Why)
			} else {
				w.Fail(p, "rejected (code %d %s) although the statement requires success: %s", bt.Res.Code, short(bt.Log), e.Why)
			}
		}
	}
}

func short(s string) string {
	if len(s) > 160 {
		return s[:160]
	}
	return s
}
