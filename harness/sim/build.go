package sim

import (
	"fmt"
	"math/big"
	"sort"
	"strings"
	"time"

	sdk "github.com/cosmos/cosmos-sdk/types"
	"github.com/cosmos/cosmos-sdk/x/authz"
	banktypes "github.com/cosmos/cosmos-sdk/x/bank/types"
	"github.com/cosmos/cosmos-sdk/x/feegrant"
	govv1 "github.com/cosmos/cosmos-sdk/x/gov/types/v1"
	stakingtypes "github.com/cosmos/cosmos-sdk/x/staking/types"

	beacontypes "github.com/unification-com/mainchain/x/beacon/types"
	enttypes "github.com/unification-com/mainchain/x/enterprise/types"
	streamtypes "github.com/unification-com/mainchain/x/stream/types"
	wrkchaintypes "github.com/unification-com/mainchain/x/wrkchain/types"

	"verifharness/lab"
)

// BuiltOp is an operation resolved against the current world.
type BuiltOp struct {
	Op          *Op
	Msg         sdk.Msg
	Signer      Addr           // account that signs (Actor)
	Named       Addr           // address written into the message's signer field
	Expect      Expect         // model expectation assuming the tx passes the ante stage
	ModelExpect Expect         // same, before the "named account did not sign" rule (used under exec wrappers)
	Apply       func(w *World) // model transition on success
	Desc        string
	// resolved details used by oracles
	Module           string // "ent","wrk","bcn","str","bank",...
	ID               uint64 // referenced id
	U64              uint64 // height / slots
	Amount           *big.Int
	Denom            string
	StreamR, StreamS Addr
	IsFeeOp          bool // WRKChain/BEACON operation that carries a protocol fee
	LiveTarget       bool // the referenced entity exists (the op would be meaningful for the entitled party)
}

// BuiltTx is a transaction ready to be delivered.
type BuiltTx struct {
	Tx       *Tx
	Ops      []*BuiltOp
	Bytes    []byte
	BuildErr error
	Signers  []Addr
	Payer    Addr
	Granter  Addr // fee granter, if any
	Fee      sdk.Coins
	Expect   Expect
	// results
	CheckRes   *TxResult
	CheckLog   string
	Res        TxResult
	Log        string
	Delivered  bool
	OK         bool
	Panicked   bool
	AntePassed bool
	Events     []sdkEvent
	Snap       map[string]interface{} // oracle snapshots taken before the tx
}

type sdkEvent struct {
	Type  string
	Attrs map[string]string
}

var big2 = big.NewInt(2)

func pow2(n uint) *big.Int { return new(big.Int).Lsh(big.NewInt(1), n) }

func parseBig(s string) *big.Int {
	if s == "" {
		return new(big.Int)
	}
	v, ok := new(big.Int).SetString(s, 10)
	if !ok {
		return new(big.Int)
	}
	return v
}

func toInt(b *big.Int) sdk.Int {
	if b.BitLen() > 255 {
		b = new(big.Int).Sub(pow2(255), big.NewInt(1))
	}
	return sdk.NewIntFromBigInt(b)
}

func (w *World) acct(i int) Addr {
	if i < 0 {
		i = -i
	}
	return w.Book[i%w.NAcc]
}

func (w *World) peer(i int) Addr {
	if i < 0 {
		i = -i
	}
	return w.Book[i%len(w.Book)]
}

func (w *World) denomSel(sel int) string {
	switch sel % 4 {
	case 0:
		return w.Ent.P.Denom
	case 1:
		return "atto"
	case 2:
		return "stake"
	default:
		return "nund"
	}
}

// strField produces a deterministic string of a generated shape.
func (w *World) strField(tag string, rule int, limit int) string {
	w.strCounter++
	base := fmt.Sprintf("%s%d", tag, w.strCounter)
	pad := func(n int) string {
		if n <= len(base) {
			return base[:n]
		}
		return base + strings.Repeat("x", n-len(base))
	}
	hex := func(prefix string, upper bool) string {
		d := "a1B2c3D4e5F6"
		if upper {
			d = "A1B2C3D4E5F6"
		}
		out := prefix + fmt.Sprintf("%x", w.strCounter)
		for len(out)+len(d) <= limit && len(out) < 66 {
			out += d
		}
		return out
	}
	switch rule % 14 {
	case 12:
		return hex("0x", false) // prefixed hex in mixed case (what block explorers and checksummed encodings give)
	case 13:
		return hex("0X", true)
	case 0, 6:
		return base
	case 1:
		return pad(limit)
	case 2:
		return pad(limit + 1)
	case 3:
		return ""
	case 4:
		// rune count within the limit, byte length above it
		n := limit/2 + 2
		return strings.Repeat("é", n)
	case 5:
		return pad(4 * limit)
	case 7:
		return " " + base // leading blank
	case 8:
		return base + "\t" // trailing tab
	case 9:
		return "\n  " + base + "  \r\n"
	case 10:
		return "MiXed " + base + " Case\u00a0" // inner blanks, upper case, non-breaking space at the end
	default:
		return base + "\x00" + "z" // embedded NUL
	}
}

func refIndex(ref, n int) int {
	if n == 0 {
		return -1
	}
	if ref < 0 {
		return -1
	}
	return ref % n
}

func (w *World) buildOp(op *Op) *BuiltOp {
	b := &BuiltOp{Op: op, Expect: either()}
	actorExplicit := op.Actor >= 0
	var actor Addr
	if actorExplicit {
		actor = w.acct(op.Actor)
	}
	setParties := func(entitled Addr) {
		if !actorExplicit {
			actor = entitled
			if actor.Acct == nil { // entitled party cannot sign (receive-only address)
				actor = w.acct(0)
			}
		}
		b.Signer = actor
		b.Named = actor
		if op.Named >= 0 {
			b.Named = w.acct(op.Named)
		}
	}
	now := w.NowUnix()
	switch op.Kind {
	case EntRaise:
		ent := w.acct(op.Peer)
		if wl := w.Ent.SortedWhitelist(); len(wl) > 0 {
			// a bulk-repeated raise rotates through the whitelisted purchasers (orders of several purchasers interleave)
			if a := w.addrByKey(wl[(op.Peer+w.RepeatIdx)%len(wl)]); a.Acct != nil {
				ent = a
			}
		}
		setParties(ent)
		if op.Rule == 9 {
			// the governance module account raises the order itself (the message executes when a proposal carrying it
			// passes; only meaningful inside a proposal)
			gov := w.addrName("gov")
			b.Signer, b.Named = gov, gov
		}
		b.Module = "ent"
		amt := parseBig(op.Amt)
		denom := w.denomSel(op.Denom)
		b.Amount, b.Denom = amt, denom
		named := b.Named
		spelling := named.Str(op.Upper)
		b.Msg = &enttypes.MsgUndPurchaseOrder{Purchaser: spelling, Amount: sdk.Coin{Denom: denom, Amount: toInt(amt)}}
		b.Expect = w.Ent.ExpectRaise(named.Key())
		b.LiveTarget = true
		b.Desc = fmt.Sprintf("raise %s%s by %s", amt, denom, named.Name)
		b.Apply = func(w *World) { w.Ent.ApplyRaise(named.Key(), spelling, amt, denom, now) }
	case EntDecide:
		var ent Addr
		if len(w.Ent.P.Signers) > 0 {
			k := op.Peer
			if k < 0 {
				k = -k
			}
			ent = w.addrByKey(w.Ent.P.Signers[k%len(w.Ent.P.Signers)])
		} else {
			ent = w.acct(op.Peer)
		}
		setParties(ent)
		if op.Rule == 9 {
			gov := w.addrName("gov") // the governance account names itself as the deciding signer (inside a proposal)
			b.Signer, b.Named = gov, gov
		}
		b.Module = "ent"
		ref := op.Ref
		if ref >= 0 {
			ref += w.RepeatIdx // a bulk-repeated decision walks over the orders instead of hitting one order again and again
		}
		id := w.orderRef(ref, op.Rule == 1)
		if op.Rule == 3 {
			id = op.Lit
		}
		b.ID = id
		dec := enttypes.StatusRejected
		if op.Flag {
			dec = enttypes.StatusAccepted
		}
		named := b.Named
		b.Msg = &enttypes.MsgProcessUndPurchaseOrder{PurchaseOrderId: id, Decision: dec, Signer: named.Str(op.Upper)}
		b.Expect = w.Ent.ExpectDecide(named.Key(), id)
		if o := w.Ent.Order(id); o != nil && o.Status == StRaised {
			b.LiveTarget = true
		}
		acc := op.Flag
		b.Desc = fmt.Sprintf("decide order %d accept=%v by %s upper=%v actor=%d peer=%d", id, acc, named.Name, op.Upper, op.Actor, op.Peer)
		b.Apply = func(w *World) { w.Ent.ApplyDecide(named.Key(), id, acc, now) }
	case EntWL:
		var ent Addr
		if len(w.Ent.P.Signers) > 0 {
			ent = w.addrByKey(w.Ent.P.Signers[int(op.N)%len(w.Ent.P.Signers)])
		} else {
			ent = w.acct(0)
		}
		setParties(ent)
		if op.Rule == 9 {
			gov := w.addrName("gov") // the governance account names itself as the signer changing the whitelist (inside a proposal)
			b.Signer, b.Named = gov, gov
		}
		b.Module = "ent"
		target := w.peer(op.Peer)
		action := enttypes.WhitelistActionRemove
		if op.Flag {
			action = enttypes.WhitelistActionAdd
		}
		named := b.Named
		b.Msg = &enttypes.MsgWhitelistAddress{Address: target.Str(op.Upper), Signer: named.Str(false), Action: action}
		b.Expect = w.Ent.ExpectWhitelist(named.Key())
		b.LiveTarget = true
		add := op.Flag
		b.Desc = fmt.Sprintf("whitelist add=%v %s by %s", add, target.Name, named.Name)
		b.Apply = func(w *World) { w.Ent.ApplyWhitelist(target.Key(), add) }
	case WrkReg, BcnReg:
		regActor := w.acct(op.Peer)
		if op.Rule == 1 && len(w.Ent.Completed) > 0 {
			var holders []string
			for k := range w.Ent.Completed {
				holders = append(holders, k)
			}
			sort.Strings(holders)
			if a := w.addrByKey(holders[op.Peer%len(holders)]); a.Acct != nil {
				regActor = a
			}
		}
		m := w.Wrk
		b.Module = "wrk"
		if op.Kind == BcnReg {
			m = w.Bcn
			b.Module = "bcn"
		}
		var again *Registration
		if op.Rule == 2 && len(m.Regs) > 0 && op.Ref >= 0 {
			// the owner of an existing registration submits the very same registration once more
			again = m.Regs[op.Ref%len(m.Regs)]
			if a := w.addrByKey(again.Owner); a.Acct != nil {
				regActor = a
				w.Class("op.registration-submitted-again")
			} else {
				again = nil
			}
		}
		setParties(regActor)
		b.IsFeeOp = true
		named := b.Named
		mon := w.strField("mon", op.Str, 64)
		name := w.strField("name", op.Str/12, 128)
		if again != nil {
			mon, name = again.Fields[0], again.Fields[1]
		}
		var fields []string
		if op.Kind == WrkReg {
			gh := w.strField("gen", op.Str/144, 66)
			typ := w.strField("typ", 0, 20)
			// the base type is free text: the usual names, none at all, or anything else
			typ = []string{typ, "geth", "", "evm", "tendermint", "ethereum", typ, "cosmos"}[w.strCounter%8]
			if again != nil {
				gh, typ = again.Fields[2], again.Fields[3]
			}
			b.Msg = &wrkchaintypes.MsgRegisterWrkChain{Moniker: mon, Name: name, GenesisHash: gh, BaseType: typ, Owner: named.Str(op.Upper)}
			fields = []string{mon, name, gh, typ}
		} else {
			b.Msg = &beacontypes.MsgRegisterBeacon{Moniker: mon, Name: name, Owner: named.Str(op.Upper)}
			fields = []string{mon, name}
		}
		b.ID = m.NextID
		b.Desc = fmt.Sprintf("%s register id=%d by %s", b.Module, m.NextID, named.Name)
		b.Apply = func(w *World) { m.ApplyRegister(named.Key(), named.Bytes.String(), fields, now) }
	case WrkRec, BcnRec:
		m := w.Wrk
		b.Module = "wrk"
		if op.Kind == BcnRec {
			m = w.Bcn
			b.Module = "bcn"
		}
		b.IsFeeOp = true
		id, reg := w.regRef(m, op.Ref)
		if g := w.ghostFor(b.Module, op); g != nil {
			// retry by the same party of an operation whose earlier attempt (against an identifier that did
			// not exist then) was rolled back or only went through CheckTx
			id, reg = g.ID, m.Reg(g.ID)
			actorExplicit, actor = true, w.acct(g.Actor)
			w.Class("op.retry-of-rolled-back-forward-ref")
			if reg != nil && reg.Owner != actor.Key() {
				w.Class("op.retry-on-registration-now-owned-by-someone-else")
			}
		}
		if reg != nil {
			setParties(w.addrByKey(reg.Owner))
		} else {
			setParties(w.acct(op.Peer))
		}
		b.ID = id
		b.LiveTarget = reg != nil
		named := b.Named
		if op.Kind == WrkRec {
			last := uint64(0)
			if reg != nil {
				last = reg.LastKey
			}
			var h uint64
			switch op.Rule % 6 {
			case 0:
				h = last + 1
			case 1:
				h = last
			case 2:
				if last > 1 {
					h = last - 1
				} else {
					h = 1
				}
			case 3:
				h = last + 2 + op.N%1000
			case 4:
				h = ^uint64(0)
			default:
				h = op.N
			}
			b.U64 = h
			f := []string{w.strField("bh", op.Str, 66), w.strField("ph", op.Str/12, 66), w.strField("h1", op.Str/144, 66), w.strField("h2", 0, 66), w.strField("h3", 0, 66)}
			if reg != nil && len(reg.Records) > 0 && (op.Rule%6 == 1 || op.Rule%6 == 2) && op.N%2 == 0 {
				// a re-submission: the block hash already recorded at that height (or the last one), other fields new
				src := reg.Records[len(reg.Records)-1]
				for _, r := range reg.Records {
					if r.Key == h {
						src = r
					}
				}
				f[0] = src.Fields[0]
				if op.N%4 == 0 {
					f = append([]string{}, src.Fields...) // the identical record once more
				}
				w.Class("op.record-resubmitted-with-recorded-hash")
			}
			b.Msg = &wrkchaintypes.MsgRecordWrkChainBlock{WrkchainId: id, Height: h, BlockHash: f[0], ParentHash: f[1], Hash1: f[2], Hash2: f[3], Hash3: f[4], Owner: named.Str(op.Upper)}
			b.Expect = m.ExpectRecord(named.Key(), id, h)
			b.Desc = fmt.Sprintf("wrk record id=%d height=%d by %s", id, h, named.Name)
			b.Apply = func(w *World) { m.ApplyRecord(id, h, f, now) }
		} else {
			st := op.N
			if op.Rule%5 == 0 {
				st = now
			}
			b.U64 = st
			f := []string{w.strField("hash", op.Str, 66)}
			b.Msg = &beacontypes.MsgRecordBeaconTimestamp{BeaconId: id, Hash: f[0], SubmitTime: st, Owner: named.Str(op.Upper)}
			b.Expect = m.ExpectRecord(named.Key(), id, 0)
			b.Desc = fmt.Sprintf("bcn record id=%d subtime=%d by %s", id, st, named.Name)
			b.Apply = func(w *World) { m.ApplyRecord(id, 0, f, st) }
		}
	case WrkPur, BcnPur:
		m := w.Wrk
		b.Module = "wrk"
		if op.Kind == BcnPur {
			m = w.Bcn
			b.Module = "bcn"
		}
		b.IsFeeOp = true
		id, reg := w.regRef(m, op.Ref)
		if op.Ref >= 0 && op.N%2 == 0 {
			// half of the purchases go where the limit is in an unusual relation to the maximum in force:
			// a registration whose limit is above a maximum that governance has lowered since
			for _, r := range m.Regs {
				if r.Limit.Cmp(new(big.Int).SetUint64(m.P.MaxLimit)) > 0 {
					id, reg = r.ID, r
					w.Class("op.purchase-aimed-at-limit-above-max")
					break
				}
			}
		}
		if g := w.ghostFor(b.Module, op); g != nil {
			// retry by the same party of an operation whose earlier attempt (against an identifier that did
			// not exist then) was rolled back or only went through CheckTx
			id, reg = g.ID, m.Reg(g.ID)
			actorExplicit, actor = true, w.acct(g.Actor)
			w.Class("op.retry-of-rolled-back-forward-ref")
			if reg != nil && reg.Owner != actor.Key() {
				w.Class("op.retry-on-registration-now-owned-by-someone-else")
			}
		}
		if reg != nil {
			setParties(w.addrByKey(reg.Owner))
		} else {
			setParties(w.acct(op.Peer))
		}
		b.ID = id
		b.LiveTarget = reg != nil
		named := b.Named
		var n uint64
		room := uint64(0)
		limit := m.P.DefLimit
		if reg != nil {
			mp := m.MaxPurchasable(reg)
			if mp.IsUint64() {
				room = mp.Uint64()
			}
			if reg.Limit.IsUint64() {
				limit = reg.Limit.Uint64()
			}
		}
		rule := op.Rule % 8
		if rule == 7 || (rule == 0 && m.P.FeePur >= 1<<60 && op.N%2 == 0) {
			// the smallest slot count whose total per-slot fee reaches 2^64 (64-bit arithmetic would wrap), if purchasable
			q := new(big.Int).Div(pow2(64), new(big.Int).SetUint64(m.P.FeePur))
			if new(big.Int).Mul(q, new(big.Int).SetUint64(m.P.FeePur)).Cmp(pow2(64)) < 0 {
				q.Add(q, big.NewInt(1))
			}
			if q.IsUint64() && q.Uint64() >= 1 && q.Uint64() <= room {
				n = q.Uint64()
				rule = -1
				w.Class("op.purchase-fee-reaches-2^64")
			} else {
				rule = 0
			}
		}
		switch rule {
		case -1:
		case 0:
			n = 1 + op.N%3
		case 1:
			n = room
		case 2:
			n = room + 1
		case 3:
			n = ^uint64(0) - op.N%16
		case 4:
			n = 1 << 63
		case 5:
			// wraps the chain's uint64 addition: limit + n = op.N%limit (mod 2^64)
			n = ^uint64(0) - limit + 1 + op.N%(limit+1)
		default:
			n = op.N
		}
		b.U64 = n
		if op.Kind == WrkPur {
			b.Msg = &wrkchaintypes.MsgPurchaseWrkChainStateStorage{WrkchainId: id, Number: n, Owner: named.Str(op.Upper)}
		} else {
			b.Msg = &beacontypes.MsgPurchaseBeaconStateStorage{BeaconId: id, Number: n, Owner: named.Str(op.Upper)}
		}
		b.Expect = m.ExpectPurchase(named.Key(), id, n)
		b.Desc = fmt.Sprintf("%s purchase id=%d slots=%d by %s", b.Module, id, n, named.Name)
		b.Apply = func(w *World) { m.ApplyPurchase(id, n) }
	case StrCreate:
		setParties(w.acct(op.Peer + 1))
		b.Module = "str"
		recv := w.peer(op.Peer)
		if op.Ref == -3 { // receiver == sender
			recv = b.Named
		}
		denom := w.denomSel(op.Denom)
		rate := int64(op.N)
		dep := w.streamAmount(op, rate)
		if op.Rule%8 == 6 {
			rate = 1 + int64(op.N%3)
			// 9999-12-31T23:59:59Z is the last whole second a protobuf timestamp holds
			last := time.Date(9999, 12, 31, 23, 59, 59, 0, time.UTC).Unix()
			off := []int64{-50400, -18000, -3600, -1, 0, 1, 2, 3600, 18000, 43200, 50400}[int(op.M)%11]
			dep = new(big.Int).Mul(big.NewInt(rate), big.NewInt(last-w.C.Now.Unix()+off))
			w.Class("op.stream-running-dry-around-the-last-representable-time")
		}
		b.Amount, b.Denom = dep, denom
		named := b.Named
		b.StreamR, b.StreamS = recv, named
		b.Msg = &streamtypes.MsgCreateStream{Receiver: recv.Str(op.Upper), Sender: named.Str(false), Deposit: sdk.Coin{Denom: denom, Amount: toInt(dep)}, FlowRate: rate}
		b.Desc = fmt.Sprintf("stream create %s->%s dep=%s%s rate=%d", named.Name, recv.Name, dep, denom, rate)
		nowMs := w.NowMs()
		b.Apply = func(w *World) { w.Str.Create(recv.Key(), named.Key(), denom, dep, rate, nowMs) }
	case StrClaim, StrTopUp, StrUpdate, StrCancel:
		b.Module = "str"
		s := w.streamRef(op.Ref)
		var recv, send Addr
		if s != nil {
			recv, send = w.addrByKey(s.Receiver), w.addrByKey(s.Sender)
		} else {
			recv, send = w.peer(op.Peer), w.acct(op.Peer+1)
		}
		if s != nil && op.Actor >= 0 && op.Peer%3 == 0 {
			// the counterparty of an existing stream sends the operation with the roles swapped (the receiver "tops
			// up" or "cancels" naming itself as sender, the sender "claims" naming itself as receiver)
			signer := recv
			if op.Kind == StrClaim {
				signer = send
			}
			if signer.Acct != nil && w.Str.Get(send.Key(), recv.Key()) == nil {
				recv, send = send, recv
				actor = signer
				w.Class("op.stream-operation-with-roles-swapped")
			}
		}
		if op.Kind == StrClaim {
			setParties(recv)
			recv = b.Named // the claim names its signer as receiver
		} else {
			setParties(send)
			send = b.Named
		}
		b.StreamR, b.StreamS = recv, send
		b.LiveTarget = s != nil
		nowMs := w.NowMs()
		switch op.Kind {
		case StrClaim:
			b.Msg = &streamtypes.MsgClaimStream{Receiver: b.Named.Str(op.Upper), Sender: send.Str(false)}
			tgt := w.Str.Get(b.Named.Key(), send.Key())
			if tgt != nil && tgt.Deposit.Sign() > 0 {
				b.Expect = accept("claim by the receiver of a stream with positive deposit", "C12")
			}
			b.Desc = fmt.Sprintf("stream claim %s<-%s", b.Named.Name, send.Name)
			b.Apply = func(w *World) {
				if t := w.Str.Get(b.Named.Key(), send.Key()); t != nil {
					rel := w.Str.Claim(t, nowMs)
					w.Notes["lastRelease"] = rel
				}
			}
		case StrTopUp:
			rate := int64(1)
			denom := w.denomSel(op.Denom)
			if s != nil {
				rate, denom = s.Rate, s.Denom
				if op.Rule%8 == 7 {
					denom = w.denomSel(op.Denom + 1) // wrong denomination
				}
			}
			amt := w.streamAmount(op, rate)
			b.Amount, b.Denom = amt, denom
			b.Msg = &streamtypes.MsgTopUpDeposit{Receiver: recv.Str(op.Upper), Sender: b.Named.Str(false), Deposit: sdk.Coin{Denom: denom, Amount: toInt(amt)}}
			tgt := w.Str.Get(recv.Key(), b.Named.Key())
			if tgt != nil && tgt.Deposit.Sign() > 0 && denom == tgt.Denom && amt.Sign() > 0 && w.canAfford(b.Named, denom, amt) {
				// the resulting deposit-zero time must be storable (protobuf timestamps end with year 9999);
				// a top-up beyond that may be refused: nothing is stranded because nothing was accepted
				base := new(big.Int).Set(tgt.ZeroMs)
				if big.NewInt(nowMs).Cmp(base) >= 0 {
					base = big.NewInt(nowMs)
				}
				if new(big.Int).Add(base, msFromSecs(durationSecs(amt, tgt.Rate))).Cmp(maxProtoMs) <= 0 {
					b.Expect = accept("affordable top-up by the sender of a stream with positive deposit", "C12")
				} else {
					w.Class("c12.topup-beyond-year-9999")
				}
			}
			b.Desc = fmt.Sprintf("stream topup %s->%s amt=%s%s", b.Named.Name, recv.Name, amt, denom)
			b.Apply = func(w *World) {
				if t := w.Str.Get(recv.Key(), b.Named.Key()); t != nil {
					rel, _ := w.Str.TopUp(t, amt, nowMs)
					w.Notes["lastRelease"] = rel
				}
			}
		case StrUpdate:
			rate := int64(op.N)
			b.U64 = op.N
			b.Msg = &streamtypes.MsgUpdateFlowRate{Receiver: recv.Str(op.Upper), Sender: b.Named.Str(false), FlowRate: rate}
			b.Desc = fmt.Sprintf("stream update %s->%s rate=%d", b.Named.Name, recv.Name, rate)
			b.Apply = func(w *World) {
				if t := w.Str.Get(recv.Key(), b.Named.Key()); t != nil {
					rel := w.Str.UpdateRate(t, rate, nowMs)
					w.Notes["lastRelease"] = rel
				}
			}
		case StrCancel:
			b.Msg = &streamtypes.MsgCancelStream{Receiver: recv.Str(op.Upper), Sender: b.Named.Str(false)}
			tgt := w.Str.Get(recv.Key(), b.Named.Key())
			if tgt != nil && tgt.Deposit.Sign() > 0 {
				b.Expect = accept("cancel by the sender of a stream with positive deposit", "C12")
			}
			b.Desc = fmt.Sprintf("stream cancel %s->%s", b.Named.Name, recv.Name)
			b.Apply = func(w *World) {
				if t := w.Str.Get(recv.Key(), b.Named.Key()); t != nil {
					rel, refund := w.Str.Cancel(t, nowMs)
					w.Notes["lastRelease"] = rel
					w.Notes["lastRefund"] = refund
				}
			}
		}
		// entitlement (C13): the message must name, and be signed by, the party the stream belongs to
		if op.Kind != StrClaim && w.Str.Get(recv.Key(), b.Named.Key()) == nil {
			b.Expect = reject("stream operation on a stream the named sender does not have", "C13")
		}
		if op.Kind == StrClaim && w.Str.Get(b.Named.Key(), send.Key()) == nil {
			b.Expect = reject("claim on a stream the named receiver does not have", "C13")
		}
	case BankSend:
		setParties(w.acct(op.Peer + 1))
		b.Module = "bank"
		to := w.peer(op.Peer)
		denom := w.denomSel(op.Denom)
		amt := parseBig(op.Amt)
		b.Amount, b.Denom = amt, denom
		b.Msg = &banktypes.MsgSend{FromAddress: b.Named.Str(false), ToAddress: to.Str(op.Upper), Amount: sdk.Coins{sdk.Coin{Denom: denom, Amount: toInt(amt)}}}
		b.StreamR = to
		b.Desc = fmt.Sprintf("bank send %s->%s %s%s", b.Named.Name, to.Name, amt, denom)
	case BankSendEnabled:
		setParties(w.acct(0))
		gov := w.addrName("gov")
		b.Signer, b.Named = gov, gov
		b.Module = "bank"
		denom := w.denomSel(op.Denom)
		b.Msg = &banktypes.MsgSetSendEnabled{Authority: gov.Bytes.String(), SendEnabled: []*banktypes.SendEnabled{{Denom: denom, Enabled: op.Flag}}}
		b.Desc = fmt.Sprintf("bank send-enabled %s=%v", denom, op.Flag)
	case StakeDeleg:
		setParties(w.acct(op.Peer))
		b.Module = "staking"
		amt := parseBig(op.Amt)
		b.Msg = &stakingtypes.MsgDelegate{DelegatorAddress: b.Named.Str(false), ValidatorAddress: sdk.ValAddress(w.C.ValAddr()).String(), Amount: sdk.Coin{Denom: lab.BondDenom, Amount: toInt(amt)}}
		b.Desc = fmt.Sprintf("delegate %s by %s", amt, b.Named.Name)
	case ParamsEnt, ParamsWrk, ParamsBcn, ParamsStr:
		setParties(w.acct(op.Peer))
		b.Module = "params"
		b.Msg = w.paramsMsg(op, b.Named)
		b.LiveTarget = true
		if op.P == nil || op.P.Authority != 0 {
			b.Expect = reject("parameter update not issued by the governance authority", "C13")
		}
		b.Desc = fmt.Sprintf("%s %+v", op.Kind, op.P)
	case FeeGrantOp:
		setParties(w.acct(op.Peer + 1))
		b.Module = "feegrant"
		grantee := w.acct(op.Peer)
		named := b.Named
		g, err := feegrant.NewMsgGrantAllowance(&feegrant.BasicAllowance{}, named.Bytes, grantee.Bytes)
		if err == nil {
			b.Msg = g
		}
		b.Desc = fmt.Sprintf("feegrant %s->%s", named.Name, grantee.Name)
		b.Apply = func(w *World) { w.FeeGrants[named.Key()+"|"+grantee.Key()] = true }
	case AuthzGrant:
		setParties(w.acct(op.Peer + 1))
		b.Module = "authz"
		grantee := w.acct(op.Peer)
		url := lab.CustomMsgURLs[int(op.N)%len(lab.CustomMsgURLs)]
		exp := w.C.Now.AddDate(10, 0, 0)
		g, err := authz.NewMsgGrant(b.Named.Bytes, grantee.Bytes, authz.NewGenericAuthorization(url), &exp)
		if err == nil {
			b.Msg = g
		}
		b.Desc = fmt.Sprintf("authz grant %s->%s %s", b.Named.Name, grantee.Name, url)
	default:
		panic("unknown op kind " + op.Kind)
	}
	if b.Msg == nil {
		b.Msg = &banktypes.MsgSend{FromAddress: b.Named.Str(false), ToAddress: b.Named.Str(false), Amount: sdk.Coins{}}
	}
	b.ModelExpect = b.Expect
	// a message naming X in a transaction signed by Y != X cannot verify
	if b.Named.Key() != b.Signer.Key() && b.Module != "params" {
		b.Expect = reject("message names an account that did not sign the transaction", "C13")
	}
	return b
}

// streamAmount: Rule%8==1 -> literal Amt; otherwise rate x M seconds + remainder Amt.
func (w *World) streamAmount(op *Op, rate int64) *big.Int {
	if op.Rule%8 == 1 {
		return parseBig(op.Amt)
	}
	r := big.NewInt(rate)
	if rate < 0 {
		r = big.NewInt(1)
	}
	v := new(big.Int).Mul(r, new(big.Int).SetUint64(op.M))
	rem, ok := new(big.Int).SetString(op.Amt, 10) // may be negative: just below a whole number of seconds
	if !ok {
		rem = new(big.Int)
	}
	v.Add(v, rem)
	if v.Sign() <= 0 {
		v = new(big.Int).Mul(r, new(big.Int).SetUint64(op.M))
	}
	return v
}

func (w *World) canAfford(a Addr, denom string, amt *big.Int) bool {
	sp := w.C.App.BankKeeper.SpendableCoins(w.C.Ctx(), a.Bytes)
	return sp.AmountOf(denom).BigInt().Cmp(amt) >= 0
}

func (w *World) addrByKey(k string) Addr {
	for _, a := range w.Book {
		if a.Key() == k {
			return a
		}
	}
	return Addr{Bytes: sdk.AccAddress(k), Name: fmt.Sprintf("addr(%x)", k)}
}

func (w *World) orderRef(ref int, any bool) uint64 {
	switch {
	case ref == -2:
		return 0
	case ref < 0 || len(w.Ent.Orders) == 0:
		return w.Ent.NextID + 7
	}
	if !any {
		var raised []*Order
		for _, o := range w.Ent.Orders {
			if o.Status == StRaised {
				raised = append(raised, o)
			}
		}
		if len(raised) > 0 {
			return raised[ref%len(raised)].ID
		}
	}
	return w.Ent.Orders[ref%len(w.Ent.Orders)].ID
}

// Ghost: a record/purchase attempt against an identifier that did not exist when it was made, in a
// transaction that was rolled back or only checked.
type Ghost struct {
	Module string
	ID     uint64
	Actor  int
}

// ghostFor resolves Ref -5: the most recent ghost of the module whose identifier exists by now (else the most recent one).
func (w *World) ghostFor(module string, op *Op) *Ghost {
	m := w.Wrk
	if module == "bcn" {
		m = w.Bcn
	}
	if op.Ref != -5 {
		// an attempt by an explicitly chosen (usually unentitled) party is, half of the time, aimed where a stale
		// entitlement could exist: at an identifier that party used in a rolled-back transaction and that has
		// meanwhile been given to somebody else
		if op.Actor >= 0 && op.Ref >= 0 && op.Peer%2 == 0 {
			for i := len(w.Ghosts) - 1; i >= 0; i-- {
				g := &w.Ghosts[i]
				if r := m.Reg(g.ID); g.Module == module && r != nil && r.Owner != w.acct(g.Actor).Key() {
					return g
				}
			}
		}
		return nil
	}
	var last, live *Ghost
	for i := len(w.Ghosts) - 1; i >= 0; i-- {
		g := &w.Ghosts[i]
		if g.Module != module {
			continue
		}
		if last == nil {
			last = g
		}
		if r := m.Reg(g.ID); r != nil {
			if live == nil {
				live = g
			}
			if r.Owner != w.acct(g.Actor).Key() {
				return g // the identifier has meanwhile been given to somebody else
			}
		}
	}
	if live != nil {
		return live
	}
	return last
}

func (w *World) regRef(m *RegModel, ref int) (uint64, *Registration) {
	switch {
	case ref == -2:
		return 0, nil
	case ref == -4:
		// forward reference: the identifier the next registration of this module will receive
		return m.NextID, nil
	case ref < 0 || len(m.Regs) == 0:
		return m.NextID + 7, nil
	}
	r := m.Regs[ref%len(m.Regs)]
	return r.ID, r
}

func (w *World) streamRef(ref int) *StreamM {
	ss := w.Str.Sorted()
	if ref < 0 || len(ss) == 0 {
		return nil
	}
	return ss[ref%len(ss)]
}

// steerEntParams adapts a (valid) enterprise parameter patch to the orders in flight, in place (the patch stays the
// record of what was proposed): 3 = see below; 1 = fewer signers than decisions already recorded on some raised order; 2 = MinAccepts
// equal to the accepts already recorded on some raised order (the recorded decisions settle it under the new values).
func (w *World) steerEntParams(p *ParamsPatch) {
	kind := p.Steer
	p.Steer = 0 // once: the message is rebuilt from the patch later (when the proposal's outcome is judged) and must not change
	var best *Order
	for _, o := range w.Ent.Orders {
		if o.Status == StRaised && len(o.Decisions) >= 1 && (best == nil || len(o.Decisions) > len(best.Decisions)) {
			best = o
		}
	}
	if best == nil {
		return
	}
	switch kind {
	case 1:
		n := len(best.Decisions) - 1
		if n < 1 {
			return
		}
		if len(p.Signers) > n {
			p.Signers = p.Signers[:n]
		}
		if p.MinAccepts > uint64(n) {
			p.MinAccepts = uint64(n)
		}
		w.Class("gov.ent-params-steered.fewer-signers-than-recorded-decisions")
	case 2:
		acc := 0
		for _, d := range best.Decisions {
			if d.Accept {
				acc++
			}
		}
		if acc < 1 || acc > len(p.Signers) {
			return
		}
		p.MinAccepts = uint64(acc)
		w.Class("gov.ent-params-steered.min-accepts-equals-recorded-accepts")
	case 3:
		// both quorums hold at once under the new values: recorded accepts reach MinAccepts and recorded rejects
		// exceed len(signers) - MinAccepts (impossible while the parameters stand still)
		var tgt *Order
		acc, rej := 0, 0
		for _, o := range w.Ent.Orders {
			if o.Status != StRaised {
				continue
			}
			a, r := 0, 0
			for _, d := range o.Decisions {
				if d.Accept {
					a++
				} else {
					r++
				}
			}
			if a >= 1 && r >= 1 {
				tgt, acc, rej = o, a, r
			}
		}
		if tgt == nil {
			p.Steer = 1 + len(w.Ent.Orders)%2
			w.steerEntParams(p)
			return
		}
		n := acc + rej - 1
		if n > len(p.Signers) {
			n = len(p.Signers)
		}
		if n < acc {
			return
		}
		p.Signers = p.Signers[:n]
		p.MinAccepts = uint64(acc)
		w.Class("gov.ent-params-steered.both-quorums-hold-under-new-values")
	}
}

func (w *World) paramsMsg(op *Op, named Addr) sdk.Msg {
	p := op.P
	if p == nil {
		p = &ParamsPatch{}
	}
	auth := lab.GovAddr().String()
	switch p.Authority {
	case 1:
		auth = named.Str(false)
	case 2:
		auth = "not-an-address"
	}
	switch op.Kind {
	case ParamsEnt:
		if p.Steer > 0 && p.SignersRaw == "" && len(p.Signers) > 0 {
			w.steerEntParams(p)
		}
		signers := p.SignersRaw
		for k := 0; k < 4; k++ {
			signers = strings.ReplaceAll(signers, fmt.Sprintf("{%d}", k), w.acct(k).Bytes.String())
		}
		if signers == "" {
			var ss []string
			for k, i := range p.Signers {
				a := w.acct(i).Bytes.String()
				if p.UpperSigner > 0 && (p.UpperSigner-1)%len(p.Signers) == k {
					a = strings.ToUpper(a) // the other legal spelling of the same address
					w.Class("gov.ent-params-with-upper-case-signer")
				}
				ss = append(ss, a)
			}
			signers = strings.Join(ss, ",")
		}
		return &enttypes.MsgUpdateParams{Authority: auth, Params: enttypes.Params{EntSigners: signers, Denom: p.Denom, MinAccepts: p.MinAccepts, DecisionTimeLimit: p.TimeLimit}}
	case ParamsWrk:
		return &wrkchaintypes.MsgUpdateParams{Authority: auth, Params: wrkchaintypes.Params{FeeRegister: p.FeeReg, FeeRecord: p.FeeRec, FeePurchaseStorage: p.FeePur, Denom: p.Denom, DefaultStorageLimit: p.DefLimit, MaxStorageLimit: p.MaxLimit}}
	case ParamsBcn:
		return &beacontypes.MsgUpdateParams{Authority: auth, Params: beacontypes.Params{FeeRegister: p.FeeReg, FeeRecord: p.FeeRec, FeePurchaseStorage: p.FeePur, Denom: p.Denom, DefaultStorageLimit: p.DefLimit, MaxStorageLimit: p.MaxLimit}}
	default:
		var d sdk.Dec
		if p.ValFee != "nil" {
			var err error
			d, err = sdk.NewDecFromStr(p.ValFee)
			if err != nil {
				d = sdk.ZeroDec()
			}
		}
		return &streamtypes.MsgUpdateParams{Authority: auth, Params: streamtypes.Params{ValidatorFee: d}}
	}
}

// govWrap turns messages into a proposal submission plus the delegator's yes vote.
func (w *World) govWrap(msgs []sdk.Msg, veto bool) ([]sdk.Msg, Addr, error) {
	proposer := w.acct(0)
	sub, err := govv1.NewMsgSubmitProposal(msgs, sdk.NewCoins(sdk.NewInt64Coin(lab.BondDenom, 1)), proposer.Bytes.String(), "", "t", "s")
	if err != nil {
		return nil, proposer, err
	}
	opt := govv1.OptionYes
	if veto {
		opt = govv1.OptionNoWithVeto // the proposal is rejected and its deposit burned (the protocol's burn path)
	}
	vote := govv1.NewMsgVote(proposer.Bytes, w.NextPropID, opt, "")
	return []sdk.Msg{sub, vote}, proposer, nil
}
