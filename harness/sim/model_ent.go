package sim

import (
	"math/big"
	"sort"
)

// Tri-state expectations. Only conditions a property statement names are Must*;
// everything else is Either (the model observes and follows).
const (
	Either = iota
	MustReject
	MustAccept
)

// Expect is what the reference models predict for one operation.
type Expect struct {
	Verdict int
	Props   []string // properties whose statement makes this a Must
	Why     string
}

func either() Expect { return Expect{Verdict: Either} }
func reject(why string, props ...string) Expect {
	return Expect{Verdict: MustReject, Props: props, Why: why}
}
func accept(why string, props ...string) Expect {
	return Expect{Verdict: MustAccept, Props: props, Why: why}
}

// Order statuses (numerically equal to the chain's enum).
const (
	StNil       = 0
	StRaised    = 1
	StAccepted  = 2
	StRejected  = 3
	StCompleted = 4
)

type Decision struct {
	Signer string // address bytes as string key
	Accept bool
	Time   uint64
}

type Order struct {
	ID             uint64
	Purchaser      string // address key
	PurchaserStr   string // spelling submitted
	Amount         *big.Int
	Denom          string
	Status         int
	Decisions      []Decision
	RaiseTime      uint64
	CompletionTime uint64
}

type EntParamsM struct {
	Signers    []string // address keys, in list order
	MinAccepts uint64
	TimeLimit  uint64
	Denom      string
	Raw        string
}

// EntModel is the reference model of the enterprise purchase-order lifecycle,
// written from the statement of C03 (exact arithmetic, no SDK types).
type EntModel struct {
	P         EntParamsM
	Whitelist map[string]bool
	Orders    []*Order // ascending id
	NextID    uint64
	// Completed[addr] = sum of completed order amounts (for C04's per-account book).
	Completed map[string]*big.Int
}

func NewEntModel(startID uint64) *EntModel {
	return &EntModel{Whitelist: map[string]bool{}, NextID: startID, Completed: map[string]*big.Int{}}
}

func (m *EntModel) IsSigner(a string) bool {
	for _, s := range m.P.Signers {
		if s == a {
			return true
		}
	}
	return false
}

func (m *EntModel) Order(id uint64) *Order {
	for _, o := range m.Orders {
		if o.ID == id {
			return o
		}
	}
	return nil
}

func (m *EntModel) ExpectRaise(purchaser string) Expect {
	if !m.Whitelist[purchaser] {
		return reject("purchaser not whitelisted", "C03", "C13")
	}
	return either()
}

func (m *EntModel) ApplyRaise(purchaser, spelling string, amt *big.Int, denom string, now uint64) *Order {
	o := &Order{ID: m.NextID, Purchaser: purchaser, PurchaserStr: spelling, Amount: new(big.Int).Set(amt), Denom: denom, Status: StRaised, RaiseTime: now}
	m.Orders = append(m.Orders, o)
	m.NextID++
	return o
}

func (m *EntModel) ExpectDecide(signer string, id uint64) Expect {
	if !m.IsSigner(signer) {
		return reject("decider is not a currently authorised signer", "C03", "C13")
	}
	o := m.Order(id)
	if o == nil {
		return reject("order does not exist", "C03")
	}
	if o.Status != StRaised {
		return reject("order is not in raised status", "C03")
	}
	for _, d := range o.Decisions {
		if d.Signer == signer {
			return reject("signer already decided on this order", "C03")
		}
	}
	return either()
}

func (m *EntModel) ApplyDecide(signer string, id uint64, acc bool, now uint64) {
	o := m.Order(id)
	if o == nil {
		return
	}
	o.Decisions = append(o.Decisions, Decision{Signer: signer, Accept: acc, Time: now})
}

func (m *EntModel) ExpectWhitelist(signer string) Expect {
	if !m.IsSigner(signer) {
		return reject("whitelist change by a non-signer", "C13")
	}
	return either()
}

func (m *EntModel) ApplyWhitelist(target string, add bool) {
	if add {
		m.Whitelist[target] = true
	} else {
		delete(m.Whitelist, target)
	}
}

// TallyOutcome describes what the model allows for one order at a block.
type TallyOutcome struct {
	ID      uint64
	Allowed []int // allowed statuses after this block's begin-block (1 or 2 entries)
}

// BeginBlock applies the begin-block rules of C03 at unix time now and returns,
// per order that was raised or accepted before the block, the set of statuses the
// statement allows afterwards (two when the elapsed time equals the limit in
// whole seconds: "has passed" is then undecided at millisecond resolution).
// observed maps order id -> status seen on chain; the model adopts the observed
// status when it is allowed (and the first allowed one otherwise).
func (m *EntModel) BeginBlock(now uint64, observed func(id uint64) int) (outcomes []TallyOutcome, completed []*Order) {
	// 1. accepted at a previous block -> completed
	for _, o := range m.Orders {
		if o.Status == StAccepted {
			o.Status = StCompleted
			completed = append(completed, o)
			acc := m.Completed[o.Purchaser]
			if acc == nil {
				acc = new(big.Int)
				m.Completed[o.Purchaser] = acc
			}
			acc.Add(acc, o.Amount)
			outcomes = append(outcomes, TallyOutcome{ID: o.ID, Allowed: []int{StCompleted}})
		}
	}
	// 2. tally raised orders with the current parameters
	completedNow := map[uint64]bool{}
	for _, o := range completed {
		completedNow[o.ID] = true
	}
	signers := len(m.P.Signers)
	rejectThreshold := int64(signers) - int64(m.P.MinAccepts)
	for _, o := range m.Orders {
		if o.Status != StRaised || completedNow[o.ID] {
			continue
		}
		acc, rej := int64(0), int64(0)
		for _, d := range o.Decisions {
			if d.Accept {
				acc++
			} else {
				rej++
			}
		}
		elapsed := uint64(0)
		if now > o.RaiseTime {
			elapsed = now - o.RaiseTime
		}
		decide := func(stale bool) int {
			if stale && acc < int64(m.P.MinAccepts) {
				return StRejected
			}
			if rej > rejectThreshold {
				return StRejected
			}
			if acc >= int64(m.P.MinAccepts) {
				return StAccepted
			}
			return StRaised
		}
		var allowed []int
		switch {
		case elapsed > m.P.TimeLimit:
			allowed = []int{decide(true)}
		case elapsed < m.P.TimeLimit:
			allowed = []int{decide(false)}
		default:
			a, b := decide(true), decide(false)
			allowed = []int{a}
			if b != a {
				allowed = append(allowed, b)
			}
		}
		st := allowed[0]
		if observed != nil {
			obs := observed(o.ID)
			for _, a := range allowed {
				if a == obs {
					st = obs
				}
			}
		}
		if st != StRaised {
			o.Status = st
			o.CompletionTime = now
		}
		outcomes = append(outcomes, TallyOutcome{ID: o.ID, Allowed: allowed})
	}
	return outcomes, completed
}

func (m *EntModel) SortedWhitelist() []string {
	var out []string
	for a := range m.Whitelist {
		out = append(out, a)
	}
	sort.Strings(out)
	return out
}
