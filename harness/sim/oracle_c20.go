package sim

import (
	"bytes"
	"fmt"

	sdk "github.com/cosmos/cosmos-sdk/types"
	"github.com/cosmos/cosmos-sdk/types/query"
	"github.com/cosmos/gogoproto/proto"

	beacontypes "github.com/unification-com/mainchain/x/beacon/types"
	enttypes "github.com/unification-com/mainchain/x/enterprise/types"
	streamtypes "github.com/unification-com/mainchain/x/stream/types"
	wrkchaintypes "github.com/unification-com/mainchain/x/wrkchain/types"
)

// C20: paging through any list query with any page size, by key or by offset,
// returns every stored item matching the filter exactly once and nothing else;
// each returned item equals the point query; queries never modify state.

var allStores = []string{"acc", "bank", "staking", "distribution", "slashing", "gov", "params", "ibc", "upgrade", "feegrant", "evidence", "transfer", "capability", "authz", "group", "consensus", "crisis",
	"enterprise", "wrkchain", "beacon", "stream"}

func (w *World) existingStores() []string {
	var out []string
	for _, n := range allStores {
		if w.C.App.GetKey(n) != nil {
			out = append(out, n)
		}
	}
	return out
}

type pageFetch func(pr *query.PageRequest) (items [][]byte, resp *query.PageResponse, err error)

type pagePlan struct {
	limit      uint64
	byOffset   bool
	reverse    bool
	countTotal bool
	// firstLimit > 0: the first page is requested with this limit, the following ones with limit (so that offsets are
	// not multiples of the page size, and a key continuation starts in the middle of what a fixed page size would use)
	firstLimit uint64
}

func mkPlan(n, matches int) pagePlan {
	p := pagePlan{limit: uint64(1 + n%(matches+3)), byOffset: (n/5)%2 == 1, reverse: (n/3)%4 == 3, countTotal: n%2 == 0}
	if (n/7)%3 == 1 || (p.byOffset && n%3 == 0) {
		p.firstLimit = uint64(1 + (n/11)%(matches+2))
	}
	return p
}

// pageAll pages a list query to exhaustion and compares with the expected items (ascending store order).
func pageAll(w *World, name string, plan pagePlan, want [][]byte, fetch pageFetch) {
	exp := want
	if plan.reverse {
		exp = make([][]byte, len(want))
		for i := range want {
			exp[len(want)-1-i] = want[i]
		}
	}
	var got [][]byte
	var next []byte
	offset := uint64(0)
	pages := 0
	for guard := 0; guard < 20000; guard++ {
		pr := &query.PageRequest{Limit: plan.limit, Reverse: plan.reverse, CountTotal: plan.countTotal}
		if pages == 0 && plan.firstLimit > 0 {
			pr.Limit = plan.firstLimit
		}
		if plan.byOffset {
			pr.Offset = offset
		} else {
			pr.Key = next
		}
		items, resp, err := fetch(pr)
		if err != nil {
			w.Fail("C20", "%s (plan %+v, page %d): %v", name, plan, pages, err)
			return
		}
		pages++
		if uint64(len(items)) > pr.Limit {
			w.Fail("C20", "%s (plan %+v) returned %d items on one page, the limit is %d", name, plan, len(items), pr.Limit)
			return
		}
		if plan.countTotal && resp != nil && (plan.byOffset || pages == 1) && resp.Total != uint64(len(want)) {
			w.Fail("C20", "%s (plan %+v) reports total %d, %d stored items match the filter", name, plan, resp.Total, len(want))
			return
		}
		got = append(got, items...)
		if plan.byOffset {
			offset += uint64(len(items))
			if len(items) == 0 || (resp != nil && len(resp.NextKey) == 0) {
				break
			}
		} else {
			if resp == nil || len(resp.NextKey) == 0 {
				break
			}
			next = resp.NextKey
		}
	}
	if len(got) != len(exp) {
		w.Fail("C20", "%s (plan %+v, %d pages) returned %d items, %d stored items match the filter", name, plan, pages, len(got), len(exp))
		return
	}
	for i := range got {
		if !bytes.Equal(got[i], exp[i]) {
			w.Fail("C20", "%s (plan %+v): item %d of the concatenated pages differs from the %d-th matching stored item (duplicate, missing or foreign item)", name, plan, i, i)
			return
		}
	}
	if pages >= 2 {
		w.Class("c20.multi-page")
	}
	w.Class("c20.list-query")
}

func mustMarshal(m proto.Message) []byte {
	b, err := proto.Marshal(m)
	if err != nil {
		panic(err)
	}
	return b
}

// RunQueryBatch runs every list query of the four modules under cycling page
// plans and filter values, checking completeness against the stored items and
// consistency with point queries.
func RunQueryBatch(w *World) {
	ctx := w.C.CommittedCtx()
	n, _ := w.Notes["c20.plan"].(int)
	nextPlan := func(matches int) pagePlan { n++; return mkPlan(n, matches) }
	defer func() { w.Notes["c20.plan"] = n }()

	// ---------------- enterprise purchase orders
	orders := w.C.App.EnterpriseKeeper.GetAllPurchaseOrders(ctx)
	purchasers := []string{""}
	seenP := map[string]bool{}
	for _, o := range orders {
		k := keyOfBech32(o.Purchaser)
		if !seenP[k] {
			seenP[k] = true
			purchasers = append(purchasers, sdk.AccAddress(k).String())
		}
	}
	purchasers = append(purchasers, w.addrName("raw32").Bytes.String()) // matches nothing
	statuses := []enttypes.PurchaseOrderStatus{enttypes.StatusNil, enttypes.StatusRaised, enttypes.StatusAccepted, enttypes.StatusRejected, enttypes.StatusCompleted}
	for pi, pf := range purchasers {
		for si, sf := range statuses {
			if (pi+si+n)%3 != 0 && !(pi == 0 && si == 0) {
				continue // a rotating third of the filter combinations per batch
			}
			var want [][]byte
			for _, o := range orders {
				if sf != enttypes.StatusNil && o.Status != sf {
					continue
				}
				if pf != "" && keyOfBech32(o.Purchaser) != keyOfBech32(pf) {
					continue
				}
				o := o
				want = append(want, mustMarshal(&o))
			}
			if pf != "" && sf != enttypes.StatusNil && len(want) > 0 && len(want) < len(orders) {
				w.Class("c20.filter-strict-subset")
			}
			pf, sf := pf, sf
			pageAll(w, fmt.Sprintf("EnterpriseUndPurchaseOrders(purchaser=%q,status=%s)", pf, sf), nextPlan(len(want)), want, func(pr *query.PageRequest) ([][]byte, *query.PageResponse, error) {
				var resp enttypes.QueryEnterpriseUndPurchaseOrdersResponse
				if err := w.C.Query(qEnt+"EnterpriseUndPurchaseOrders", &enttypes.QueryEnterpriseUndPurchaseOrdersRequest{Pagination: pr, Purchaser: pf, Status: sf}, &resp); err != nil {
					return nil, nil, err
				}
				var items [][]byte
				for i := range resp.PurchaseOrders {
					items = append(items, mustMarshal(&resp.PurchaseOrders[i]))
				}
				return items, resp.Pagination, nil
			})
			if w.stop() {
				return
			}
		}
	}
	for _, o := range orders {
		if o.Id == 0 {
			continue
		}
		var pr enttypes.QueryEnterpriseUndPurchaseOrderResponse
		if err := w.C.Query(qEnt+"EnterpriseUndPurchaseOrder", &enttypes.QueryEnterpriseUndPurchaseOrderRequest{PurchaseOrderId: o.Id}, &pr); err != nil {
			w.Fail("C20", "listed purchase order %d has no point query result: %v", o.Id, err)
			return
		}
		o := o
		if !bytes.Equal(mustMarshal(&pr.PurchaseOrder), mustMarshal(&o)) {
			w.Fail("C20", "purchase order %d: list item and point query differ", o.Id)
			return
		}
	}
	// ---------------- whitelist (unpaginated by design)
	var wl enttypes.QueryWhitelistResponse
	if err := w.C.Query(qEnt+"Whitelist", &enttypes.QueryWhitelistRequest{}, &wl); err != nil {
		w.Fail("C20", "Whitelist failed: %v", err)
		return
	}
	stored := w.C.App.EnterpriseKeeper.GetAllWhitelistedAddresses(ctx)
	if len(wl.Addresses) != len(stored) {
		w.Fail("C20", "Whitelist returns %d addresses, %d are stored", len(wl.Addresses), len(stored))
		return
	}
	seenW := map[string]bool{}
	for i, a := range wl.Addresses {
		if a != stored[i] || seenW[a] {
			w.Fail("C20", "Whitelist item %d is %s, stored %s (or duplicate)", i, a, stored[i])
			return
		}
		seenW[a] = true
		var r enttypes.QueryWhitelistedResponse
		if err := w.C.Query(qEnt+"Whitelisted", &enttypes.QueryWhitelistedRequest{Address: a}, &r); err != nil || !r.Whitelisted {
			w.Fail("C20", "Whitelist lists %s but the point query says whitelisted=%v (%v)", a, r.Whitelisted, err)
			return
		}
	}
	// ---------------- WRKChains / BEACONs
	wcs := w.C.App.WrkchainKeeper.GetAllWrkChains(ctx)
	owners, monikers := []string{""}, []string{""}
	so, sm := map[string]bool{}, map[string]bool{}
	for _, c := range wcs {
		if !so[c.Owner] {
			so[c.Owner] = true
			owners = append(owners, c.Owner)
		}
		if !sm[c.Moniker] && len(monikers) < 4 {
			sm[c.Moniker] = true
			monikers = append(monikers, c.Moniker)
		}
	}
	owners = append(owners, w.addrName("raw32").Bytes.String())
	monikers = append(monikers, "no-such-moniker")
	for oi, of := range owners {
		for mi, mf := range monikers {
			if (oi+mi+n)%3 != 0 && !(oi == 0 && mi == 0) {
				continue
			}
			var want [][]byte
			for _, c := range wcs {
				if (of != "" && c.Owner != of) || (mf != "" && c.Moniker != mf) {
					continue
				}
				c := c
				want = append(want, mustMarshal(&c))
			}
			if len(want) > 0 && len(want) < len(wcs) {
				w.Class("c20.filter-strict-subset")
			}
			of, mf := of, mf
			pageAll(w, fmt.Sprintf("WrkChainsFiltered(owner=%q,moniker=%q)", of, mf), nextPlan(len(want)), want, func(pr *query.PageRequest) ([][]byte, *query.PageResponse, error) {
				var resp wrkchaintypes.QueryWrkChainsFilteredResponse
				if err := w.C.Query("/mainchain.wrkchain.v1.Query/WrkChainsFiltered", &wrkchaintypes.QueryWrkChainsFilteredRequest{Pagination: pr, Owner: of, Moniker: mf}, &resp); err != nil {
					return nil, nil, err
				}
				var items [][]byte
				for i := range resp.Wrkchains {
					items = append(items, mustMarshal(&resp.Wrkchains[i]))
				}
				return items, resp.Pagination, nil
			})
			if w.stop() {
				return
			}
		}
	}
	for _, c := range wcs {
		if c.WrkchainId == 0 {
			continue
		}
		var r wrkchaintypes.QueryWrkChainResponse
		c := c
		if err := w.C.Query("/mainchain.wrkchain.v1.Query/WrkChain", &wrkchaintypes.QueryWrkChainRequest{WrkchainId: c.WrkchainId}, &r); err != nil || r.Wrkchain == nil || !bytes.Equal(mustMarshal(r.Wrkchain), mustMarshal(&c)) {
			w.Fail("C20", "WRKChain %d: list item and point query differ (%v)", c.WrkchainId, err)
			return
		}
	}
	bcs := w.C.App.BeaconKeeper.GetAllBeacons(ctx)
	owners, monikers = []string{""}, []string{""}
	so, sm = map[string]bool{}, map[string]bool{}
	for _, c := range bcs {
		if !so[c.Owner] {
			so[c.Owner] = true
			owners = append(owners, c.Owner)
		}
		if !sm[c.Moniker] && len(monikers) < 4 {
			sm[c.Moniker] = true
			monikers = append(monikers, c.Moniker)
		}
	}
	owners = append(owners, w.addrName("raw32").Bytes.String())
	for oi, of := range owners {
		for mi, mf := range monikers {
			if (oi+mi+n)%3 != 0 && !(oi == 0 && mi == 0) {
				continue
			}
			var want [][]byte
			for _, c := range bcs {
				if (of != "" && c.Owner != of) || (mf != "" && c.Moniker != mf) {
					continue
				}
				c := c
				want = append(want, mustMarshal(&c))
			}
			if len(want) > 0 && len(want) < len(bcs) {
				w.Class("c20.filter-strict-subset")
			}
			of, mf := of, mf
			pageAll(w, fmt.Sprintf("BeaconsFiltered(owner=%q,moniker=%q)", of, mf), nextPlan(len(want)), want, func(pr *query.PageRequest) ([][]byte, *query.PageResponse, error) {
				var resp beacontypes.QueryBeaconsFilteredResponse
				if err := w.C.Query("/mainchain.beacon.v1.Query/BeaconsFiltered", &beacontypes.QueryBeaconsFilteredRequest{Pagination: pr, Owner: of, Moniker: mf}, &resp); err != nil {
					return nil, nil, err
				}
				var items [][]byte
				for i := range resp.Beacons {
					items = append(items, mustMarshal(&resp.Beacons[i]))
				}
				return items, resp.Pagination, nil
			})
			if w.stop() {
				return
			}
		}
	}
	for _, c := range bcs {
		if c.BeaconId == 0 {
			continue
		}
		var r beacontypes.QueryBeaconResponse
		c := c
		if err := w.C.Query("/mainchain.beacon.v1.Query/Beacon", &beacontypes.QueryBeaconRequest{BeaconId: c.BeaconId}, &r); err != nil || r.Beacon == nil || !bytes.Equal(mustMarshal(r.Beacon), mustMarshal(&c)) {
			w.Fail("C20", "BEACON %d: list item and point query differ (%v)", c.BeaconId, err)
			return
		}
	}
	// ---------------- streams
	type st struct {
		r, s sdk.AccAddress
		v    streamtypes.Stream
	}
	var sts []st
	w.C.App.StreamKeeper.IterateAllStreams(ctx, func(r, s sdk.AccAddress, v streamtypes.Stream) bool {
		sts = append(sts, st{append(sdk.AccAddress{}, r...), append(sdk.AccAddress{}, s...), v})
		return false
	})
	item := func(x st) []byte {
		v := x.v
		return mustMarshal(&streamtypes.StreamResult{Receiver: x.r.String(), Sender: x.s.String(), Stream: &v})
	}
	conv := func(in []*streamtypes.StreamResult) [][]byte {
		var out [][]byte
		for _, s := range in {
			out = append(out, mustMarshal(s))
		}
		return out
	}
	var wantAll [][]byte
	for _, x := range sts {
		wantAll = append(wantAll, item(x))
	}
	pageAll(w, "Streams", nextPlan(len(wantAll)), wantAll, func(pr *query.PageRequest) ([][]byte, *query.PageResponse, error) {
		var resp streamtypes.QueryStreamsResponse
		if err := w.C.Query(qStr+"Streams", &streamtypes.QueryStreamsRequest{Pagination: pr}, &resp); err != nil {
			return nil, nil, err
		}
		return conv(resp.Streams), resp.Pagination, nil
	})
	if w.stop() {
		return
	}
	parties := map[string]sdk.AccAddress{}
	for _, x := range sts {
		parties[string(x.r)] = x.r
		parties[string(x.s)] = x.s
	}
	parties[string(w.addrName("raw1").Bytes)] = w.addrName("raw1").Bytes
	for _, a := range w.Book {
		if _, ok := parties[a.Key()]; !ok {
			continue
		}
		addr := a.Bytes
		var wantS, wantR [][]byte
		for _, x := range sts {
			if x.s.Equals(addr) {
				wantS = append(wantS, item(x))
			}
			if x.r.Equals(addr) {
				wantR = append(wantR, item(x))
			}
		}
		if len(wantS) > 0 && len(wantS) < len(sts) {
			w.Class("c20.filter-strict-subset")
		}
		pageAll(w, fmt.Sprintf("AllStreamsForSender(%s)", a.Name), nextPlan(len(wantS)), wantS, func(pr *query.PageRequest) ([][]byte, *query.PageResponse, error) {
			var resp streamtypes.QueryAllStreamsForSenderResponse
			if err := w.C.Query(qStr+"AllStreamsForSender", &streamtypes.QueryAllStreamsForSenderRequest{SenderAddr: addr.String(), Pagination: pr}, &resp); err != nil {
				return nil, nil, err
			}
			return conv(resp.Streams), resp.Pagination, nil
		})
		if w.stop() {
			return
		}
		pageAll(w, fmt.Sprintf("AllStreamsForReceiver(%s)", a.Name), nextPlan(len(wantR)), wantR, func(pr *query.PageRequest) ([][]byte, *query.PageResponse, error) {
			var resp streamtypes.QueryAllStreamsForReceiverResponse
			if err := w.C.Query(qStr+"AllStreamsForReceiver", &streamtypes.QueryAllStreamsForReceiverRequest{ReceiverAddr: addr.String(), Pagination: pr}, &resp); err != nil {
				return nil, nil, err
			}
			return conv(resp.Streams), resp.Pagination, nil
		})
		if w.stop() {
			return
		}
	}
	for _, x := range sts {
		var r streamtypes.QueryStreamByReceiverSenderResponse
		if err := w.C.Query(qStr+"StreamByReceiverSender", &streamtypes.QueryStreamByReceiverSenderRequest{ReceiverAddr: x.r.String(), SenderAddr: x.s.String()}, &r); err != nil {
			w.Fail("C20", "listed stream (%s,%s) has no point query result: %v", x.r, x.s, err)
			return
		}
		if !bytes.Equal(mustMarshal(&r.Stream), item(x)) {
			w.Fail("C20", "stream (%s,%s): list item and point query differ", x.r, x.s)
			return
		}
	}
}

func init() {
	register(Hooks{
		Prop: "C20",
		AfterCommit: func(w *World) {
			stores := w.existingStores()
			before := w.C.Digest(w.C.CommittedCtx(), stores...)
			beforeCheck := w.C.Digest(w.C.CheckCtx(), stores...)
			id := w.C.App.LastCommitID()
			RunQueryBatch(w)
			if w.stop() {
				return
			}
			after := w.C.Digest(w.C.CommittedCtx(), stores...)
			afterCheck := w.C.Digest(w.C.CheckCtx(), stores...)
			id2 := w.C.App.LastCommitID()
			if before != after || beforeCheck != afterCheck || !bytes.Equal(id.Hash, id2.Hash) || id.Version != id2.Version {
				w.Fail("C20", "the query batch modified state (committed digest changed: %v, mempool state changed: %v, commit id changed: %v)", before != after, beforeCheck != afterCheck, !bytes.Equal(id.Hash, id2.Hash))
			}
		},
	})
}
