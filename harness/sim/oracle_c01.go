package sim

import (
	"bytes"
	"encoding/json"
	"fmt"
	"os"
	"os/exec"
	"strings"
	"time"

	abci "github.com/cometbft/cometbft/abci/types"
	"pgregory.net/rapid"

	beacontypes "github.com/unification-com/mainchain/x/beacon/types"
	enttypes "github.com/unification-com/mainchain/x/enterprise/types"
	streamtypes "github.com/unification-com/mainchain/x/stream/types"
	wrkchaintypes "github.com/unification-com/mainchain/x/wrkchain/types"

	"verifharness/lab"
)

// C01: two nodes executing the same genesis and the same blocks produce
// byte-identical app hashes and per-tx (code, codespace, data, gas wanted, gas
// used) at every height, whatever the node-local options, process, or wall
// clock; a node that stops at any point restarts at the last committed height and
// hash and, replaying the interrupted block, reaches the same hash.

type recTx struct {
	Bytes []byte   `json:"b"`
	Res   TxResult `json:"r"`
}

type recBlock struct {
	TimeMs int64   `json:"t"`
	Txs    []recTx `json:"txs"`
	Hash   []byte  `json:"h"`
	Crash  int     `json:"crash,omitempty"`
	CrashK int     `json:"k,omitempty"`
}

// Recording is what node A did: enough to replay the chain on any other node.
type Recording struct {
	Gen    lab.GenesisCfg `json:"genesis"`
	Blocks []recBlock     `json:"blocks"`
}

func eqRes(a, b TxResult) bool {
	return a.Code == b.Code && a.Codespace == b.Codespace && bytes.Equal(a.Data, b.Data) && a.GasWanted == b.GasWanted && a.GasUsed == b.GasUsed
}

// replayRecording executes a recording on a fresh node with the given options and crash plan.
func replayRecording(rec *Recording, opts lab.NodeOpts, withCrashes bool, label string) (msg string, stats map[string]int) {
	stats = map[string]int{}
	known := LoadedKnown()
	if opts.TZOffsetH != 0 {
		// this node's machine is in another time zone (the process-wide time.Local; cases run one after the other)
		old := time.Local
		time.Local = time.FixedZone(fmt.Sprintf("UTC%+d", opts.TZOffsetH), opts.TZOffsetH*3600)
		defer func() { time.Local = old }()
		stats["node-in-another-time-zone"]++
	}
	freshProcess := false // no block has been committed since the last restart
	b, err := lab.New(rec.Gen, opts)
	if err != nil {
		return fmt.Sprintf("%s: cannot start from the same genesis: %v", label, err), stats
	}
	defer b.Close()
	var lastHash []byte
	reopen := func(bi int, where string) string {
		if err := b.Reopen(); err != nil {
			return fmt.Sprintf("%s: restart %s of block %d failed: %v", label, where, bi, err)
		}
		stats["restarts"]++
		freshProcess = true
		if h := b.App.LastBlockHeight(); h != b.Height {
			return fmt.Sprintf("%s: after a restart %s of block %d the node is at height %d, the last committed height is %d", label, where, bi, h, b.Height)
		}
		if lastHash != nil && !bytes.Equal(b.App.LastCommitID().Hash, lastHash) {
			return fmt.Sprintf("%s: after a restart %s of block %d the node reports commit hash %x, the last committed hash is %x", label, where, bi, b.App.LastCommitID().Hash, lastHash)
		}
		return ""
	}
	for bi := range rec.Blocks {
		blk := &rec.Blocks[bi]
		crash := 0
		if withCrashes {
			crash = blk.Crash
		}
		if opts.Noise >= 1 {
			// a node with a mempool has seen (and checked) every transaction before it is proposed in a block
			for k, tx := range blk.Txs {
				b.CheckTx(tx.Bytes)
				stats["noise-checktx"]++
				if opts.Noise >= 2 && (bi+k)%3 == 0 {
					b.Simulate(tx.Bytes)
					stats["noise-simulate"]++
				}
			}
		}
		for attempt := 0; attempt < 2; attempt++ {
			t := time.UnixMilli(blk.TimeMs).UTC()
			if _, pan := b.BeginBlockAt(t); pan != nil {
				if bi == len(rec.Blocks)-1 && blk.Hash == nil {
					return "", stats // node A halted here as well (C14's subject)
				}
				return fmt.Sprintf("%s: begin-block of block %d panicked: %v", label, bi, pan), stats
			}
			if crash == 1 {
				crash = 0
				if m := reopen(bi, "after BeginBlock"); m != "" {
					return m, stats
				}
				continue
			}
			redo := false
			for k, tx := range blk.Txs {
				r, pan := b.DeliverTx(tx.Bytes)
				if pan != nil {
					return fmt.Sprintf("%s: DeliverTx %d of block %d panicked: %v", label, k, bi, pan), stats
				}
				got := TxResult{Code: r.Code, Codespace: r.Codespace, Data: r.Data, GasWanted: r.GasWanted, GasUsed: r.GasUsed}
				if !eqRes(got, tx.Res) {
					// predicate of C01/gasused-before-ante-after-restart: only GasUsed differs, the tx was rejected
					// before the ante handler installed its own gas meter (GasWanted 0), and this is the first
					// block the process executes since it was restarted
					g2 := got
					g2.GasUsed = tx.Res.GasUsed
					if eqRes(g2, tx.Res) && tx.Res.GasWanted == 0 && freshProcess && known.Has("C01/gasused-before-ante-after-restart") {
						stats["known:C01/gasused-before-ante-after-restart"]++
						continue
					}
					return fmt.Sprintf("%s: tx %d of block %d: result (code %d/%s, data %x, gas %d/%d) differs from the reference node's (code %d/%s, data %x, gas %d/%d)", label, k, bi,
						got.Code, got.Codespace, got.Data, got.GasWanted, got.GasUsed, tx.Res.Code, tx.Res.Codespace, tx.Res.Data, tx.Res.GasWanted, tx.Res.GasUsed), stats
				}
				if opts.Noise >= 2 && (bi+k)%2 == 0 {
					// client and mempool activity while the block executes
					b.ReCheckTx(tx.Bytes)
					if k+1 < len(blk.Txs) {
						b.Simulate(blk.Txs[k+1].Bytes)
					}
					stats["noise-inblock"]++
				}
				if crash == 2 && k == blk.CrashK%len(blk.Txs) {
					crash = 0
					stats["restarts-after-tx"]++
					if m := reopen(bi, fmt.Sprintf("after DeliverTx %d", k)); m != "" {
						return m, stats
					}
					redo = true
					break
				}
			}
			if redo {
				continue
			}
			if crash == 2 {
				crash = 0 // block without transactions
			}
			if _, pan := b.EndBlock(); pan != nil {
				if blk.Hash == nil {
					return "", stats
				}
				if opts.InvCheckPeriod > 0 && strings.Contains(fmt.Sprint(pan), "invariant broken") {
					// the crisis module halts a node that checks invariants when one is broken (its purpose); the
					// node stops, it does not produce different results - whether an invariant can break is C15/C04/C10's subject
					stats["nodeB-halted-by-broken-invariant"]++
					return "", stats
				}
				return fmt.Sprintf("%s: end-block of block %d panicked: %v", label, bi, pan), stats
			}
			if crash == 3 {
				crash = 0
				if m := reopen(bi, "after EndBlock"); m != "" {
					return m, stats
				}
				continue
			}
			h, pan := b.Commit()
			if pan != nil {
				return fmt.Sprintf("%s: commit of block %d panicked: %v", label, bi, pan), stats
			}
			if blk.Hash != nil && !bytes.Equal(h, blk.Hash) {
				return fmt.Sprintf("%s: app hash at block %d is %x, the reference node's is %x", label, bi, h, blk.Hash), stats
			}
			lastHash = h
			freshProcess = false
			if crash == 4 || (withCrashes && opts.RestartEvery) {
				crash = 0
				if m := reopen(bi, "after Commit"); m != "" {
					return m, stats
				}
			}
			// queries between blocks must not influence consensus state
			if bi%3 == 0 && opts.Pruning != "everything" {
				var resp streamtypes.QueryStreamsResponse
				_ = b.Query(qStr+"Streams", &streamtypes.QueryStreamsRequest{}, &resp)
			}
			if opts.Noise >= 2 {
				noiseQueries(b)
				for _, tx := range blk.Txs {
					b.ReCheckTx(tx.Bytes) // the mempool re-validates what it still holds after every commit
				}
				stats["noise-after-commit"]++
			}
			break
		}
	}
	return "", stats
}

// noiseQueries: read-only client traffic of all four modules on committed state.
func noiseQueries(b *lab.Chain) {
	_ = b.Query(qEnt+"EnterpriseUndPurchaseOrders", &enttypes.QueryEnterpriseUndPurchaseOrdersRequest{}, &enttypes.QueryEnterpriseUndPurchaseOrdersResponse{})
	_ = b.Query(qEnt+"TotalLocked", &enttypes.QueryTotalLockedRequest{}, &enttypes.QueryTotalLockedResponse{})
	_ = b.Query(qEnt+"EnterpriseSupply", &enttypes.QueryEnterpriseSupplyRequest{}, &enttypes.QueryEnterpriseSupplyResponse{})
	_ = b.Query(qEnt+"Whitelist", &enttypes.QueryWhitelistRequest{}, &enttypes.QueryWhitelistResponse{})
	_ = b.Query("/mainchain.wrkchain.v1.Query/WrkChainsFiltered", &wrkchaintypes.QueryWrkChainsFilteredRequest{}, &wrkchaintypes.QueryWrkChainsFilteredResponse{})
	_ = b.Query("/mainchain.wrkchain.v1.Query/WrkChainStorage", &wrkchaintypes.QueryWrkChainStorageRequest{WrkchainId: 1}, &wrkchaintypes.QueryWrkChainStorageResponse{})
	_ = b.Query("/mainchain.beacon.v1.Query/BeaconsFiltered", &beacontypes.QueryBeaconsFilteredRequest{}, &beacontypes.QueryBeaconsFilteredResponse{})
	_ = b.Query("/mainchain.beacon.v1.Query/BeaconStorage", &beacontypes.QueryBeaconStorageRequest{BeaconId: 1}, &beacontypes.QueryBeaconStorageResponse{})
	_ = b.Query(qStr+"Streams", &streamtypes.QueryStreamsRequest{}, &streamtypes.QueryStreamsResponse{})
}

// recordCase runs the scenario on the reference node A (MemDB, never stopped) and records it.
func recordCase(s *Scenario, trace bool) (*Recording, *World, error) {
	w, err := NewWorld(s, lab.NodeOpts{DB: "mem"})
	if err != nil {
		return nil, nil, err
	}
	rec := &Recording{Gen: s.Gen}
	var cur *recBlock
	w.TraceOn = trace
	w.AddHooks(Hooks{
		Prop: "C01-recorder",
		BeforeBegin: func(w *World, now time.Time) {
			rec.Blocks = append(rec.Blocks, recBlock{TimeMs: now.UnixMilli()})
			cur = &rec.Blocks[len(rec.Blocks)-1]
			if w.BlockIdx < len(s.Blocks) {
				cur.Crash, cur.CrashK = s.Blocks[w.BlockIdx].Crash, s.Blocks[w.BlockIdx].CrashK
			}
		},
		AfterTx: func(w *World, bt *BuiltTx) {
			if bt.Delivered {
				cur.Txs = append(cur.Txs, recTx{Bytes: bt.Bytes, Res: bt.Res})
				if bt.OK {
					for _, o := range bt.Ops {
						if isCustom(o.Module) {
							w.Class("c01.ok-custom-tx")
						}
					}
				} else {
					w.Class("c01.failed-tx")
					if bt.Panicked {
						w.Class("c01.panicked-tx")
					}
				}
			}
		},
		AfterEnd: func(w *World, _ abci.ResponseEndBlock) {},
		AfterCommit: func(w *World) {
			cur.Hash = w.AppHashes[len(w.AppHashes)-1]
		},
	})
	w.Run()
	return rec, w, nil
}

func genNodeOpts(t *rapid.T) lab.NodeOpts {
	return lab.NodeOpts{
		DB:              pick(t, []string{"level", "level", "mem"}, "db"),
		Pruning:         pick(t, []string{"default", "nothing", "everything", "custom"}, "pruning"),
		IAVLCache:       pick(t, []int{0, 1, 100, 1000000}, "iavlCache"),
		FastNodeOff:     uni(t, 2, "fastnodeOff") == 1,
		InterBlockCache: uni(t, 2, "interBlockCache") == 1,
		Noise:           pick(t, []int{0, 1, 2, 2}, "noise"),
		RestartEvery:    oneIn(t, 4, "restartEvery"),
		InvCheckPeriod:  uint(pick(t, []int{0, 0, 1, 3}, "invCheckPeriod")),
		TZOffsetH:       pick(t, []int{0, 0, 0, 5, -5, 14, -12, 9}, "tzOffsetH"),
	}
}

type c01Replay struct {
	Opts lab.NodeOpts `json:"node_b"`
}

var c01Later []*Recording // executed once more after the wall clock has moved on

func c01PerCase(rt *rapid.T, s *Scenario, ev *Evidence) []Finding {
	opts := genNodeOpts(rt)
	if len(s.Nodes) > 0 {
		opts = s.Nodes[0]
	} else {
		s.Nodes = []lab.NodeOpts{opts}
	}
	return runC01(s, opts, ev)
}

func runC01(s *Scenario, opts lab.NodeOpts, ev *Evidence) []Finding {
	wantTrace := ev != nil && ev.Evaluations < 2
	rec, w, err := recordCase(s, wantTrace)
	if err != nil {
		return nil
	}
	defer w.Close()
	msg, stats := replayRecording(rec, opts, true, fmt.Sprintf("node B (%+v)", opts))
	if ev != nil {
		ev.AddClasses(w.Classes)
		for k, v := range stats {
			if strings.HasPrefix(k, "known:") {
				sig := strings.TrimPrefix(k, "known:")
				dumpKnown("C01", Finding{Prop: "C01", Sig: sig, Msg: "GasUsed of a tx rejected before the ante handler differs after a restart"}, s)
				for i := 0; i < v; i++ {
					ev.Known(sig, "KNOWN-FINDING: property=C01 sig="+sig+" after a restart the GasUsed reported for a transaction rejected before the ante handler differs from a node that never stopped")
				}
				continue
			}
			ev.Count("c01."+k, v)
		}
		ev.Count("c01.nodeB.db."+opts.DB, 1)
		ev.Count(fmt.Sprintf("c01.nodeB.noise.%d", opts.Noise), 1)
		if opts.RestartEvery {
			ev.Count("c01.nodeB.restart-after-every-commit", 1)
		}
		if opts.InvCheckPeriod > 0 {
			ev.Count("c01.nodeB.checks-invariants", 1)
		}
		nt := w.Classes["c01.ok-custom-tx"] > 0 && w.Classes["c01.failed-tx"] > 0 && (stats["restarts-after-tx"] > 0 || opts.DB != "mem" || opts.Pruning != "default")
		ev.Eval(s.Hash(), nt)
		if wantTrace && msg == "" {
			var crashes []string
			for i, b := range s.Blocks {
				if b.Crash > 0 {
					crashes = append(crashes, fmt.Sprintf("block %d: restart phase %d k=%d", i, b.Crash, b.CrashK))
				}
			}
			ev.Sample(map[string]interface{}{"node_b": opts, "restart_points": crashes, "history": w.Trace}, 3)
		}
		if len(c01Later) < 40 && w.Classes["c01.ok-custom-tx"] > 0 {
			c01Later = append(c01Later, rec)
		}
		if os.Getenv("VERIF_TIER") == "thorough" && ev.Evaluations%12 == 0 {
			if m := otherProcess(rec); m != "" {
				return []Finding{{Prop: "C01", Msg: m}}
			}
			ev.Count("c01.second-process-runs", 1)
		}
	}
	if msg != "" {
		return []Finding{{Prop: "C01", Msg: msg}}
	}
	return nil
}

// otherProcess replays the recording in a second OS process (GOMAXPROCS=1, later wall clock, other map seeds).
func otherProcess(rec *Recording) string {
	f, err := os.CreateTemp("", "c01-rec-*.json")
	if err != nil {
		return ""
	}
	defer os.Remove(f.Name())
	json.NewEncoder(f).Encode(rec)
	f.Close()
	cmd := exec.Command(os.Args[0], "-test.run", "^TestC01OtherProcess$", "-test.count", "1")
	cmd.Env = append(os.Environ(), "VERIF_C01_RECORDING="+f.Name(), "GOMAXPROCS=1", "VERIF_EVIDENCE_DIR=")
	out, err := cmd.CombinedOutput()
	if bytes.Contains(out, []byte("C01-OTHER-PROCESS-OK")) {
		return ""
	}
	if i := bytes.Index(out, []byte("C01-OTHER-PROCESS-MISMATCH:")); i >= 0 {
		line := out[i:]
		if j := bytes.IndexByte(line, '\n'); j >= 0 {
			line = line[:j]
		}
		return string(line)
	}
	return "" // infrastructure trouble in the child is not a violation
}
