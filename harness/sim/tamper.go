package sim

import (
	"reflect"

	sdk "github.com/cosmos/cosmos-sdk/types"
	"github.com/cosmos/gogoproto/proto"
)

// tamperMsg returns a copy of msg in which one field that does not name a signer has another value (what somebody
// who relays a signed transaction could change), or nil if the message has no such field. k selects the field.
func (w *World) tamperMsg(msg sdk.Msg, k int) sdk.Msg {
	pm, ok := msg.(proto.Message)
	if !ok {
		return nil
	}
	bz, err := proto.Marshal(pm)
	if err != nil || reflect.TypeOf(msg).Kind() != reflect.Ptr {
		return nil
	}
	fresh, ok := reflect.New(reflect.TypeOf(msg).Elem()).Interface().(proto.Message)
	if !ok || proto.Unmarshal(bz, fresh) != nil {
		return nil
	}
	cp, ok := fresh.(sdk.Msg)
	if !ok {
		return nil
	}
	signers := map[string]bool{}
	for _, s := range msg.GetSigners() {
		signers[s.String()] = true
	}
	v := reflect.ValueOf(cp)
	if v.Kind() != reflect.Ptr || v.Elem().Kind() != reflect.Struct {
		return nil
	}
	v = v.Elem()
	var muts []func()
	other := func(a sdk.AccAddress) string {
		for i := 0; i < w.NAcc; i++ {
			if c := w.acct(k + i).Bytes; !c.Equals(a) && !signers[c.String()] {
				return c.String()
			}
		}
		return ""
	}
	var walk func(f reflect.Value)
	walk = func(f reflect.Value) {
		if !f.CanSet() {
			return
		}
		switch f.Kind() {
		case reflect.Uint64, reflect.Uint32:
			muts = append(muts, func() {
				if f.Uint() == 0 {
					f.SetUint(1)
				} else {
					f.SetUint(f.Uint() - 1)
				}
			})
		case reflect.Int64, reflect.Int32:
			muts = append(muts, func() { f.SetInt(f.Int() + 1) })
		case reflect.Bool:
			muts = append(muts, func() { f.SetBool(!f.Bool()) })
		case reflect.String:
			s := f.String()
			if signers[s] {
				return
			}
			if a, err := sdk.AccAddressFromBech32(s); err == nil {
				if o := other(a); o != "" {
					muts = append(muts, func() { f.SetString(o) })
				}
				return
			}
			muts = append(muts, func() {
				switch {
				case s == "":
					f.SetString("x")
				case s[len(s)-1] == 'a':
					f.SetString(s[:len(s)-1] + "b")
				default:
					f.SetString(s[:len(s)-1] + "a")
				}
			})
		case reflect.Struct:
			if c, ok := f.Addr().Interface().(*sdk.Coin); ok {
				if !c.Amount.IsNil() {
					muts = append(muts, func() { c.Amount = c.Amount.AddRaw(1) })
				}
				return
			}
			if i, ok := f.Addr().Interface().(*sdk.Int); ok {
				if !i.IsNil() {
					muts = append(muts, func() { *i = i.AddRaw(1) })
				}
				return
			}
			for j := 0; j < f.NumField(); j++ {
				walk(f.Field(j))
			}
		}
	}
	for j := 0; j < v.NumField(); j++ {
		walk(v.Field(j))
	}
	if len(muts) == 0 {
		return nil
	}
	if k < 0 {
		k = -k
	}
	muts[k%len(muts)]()
	return cp
}
