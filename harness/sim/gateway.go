package sim

import (
	"context"
	"encoding/json"
	"fmt"
	"net/http"
	"net/http/httptest"

	"github.com/cometbft/cometbft/libs/bytes"
	"github.com/cometbft/cometbft/libs/log"
	rpcclient "github.com/cometbft/cometbft/rpc/client"
	coretypes "github.com/cometbft/cometbft/rpc/core/types"
	abci "github.com/cometbft/cometbft/abci/types"
	"github.com/cosmos/cosmos-sdk/client"
	"github.com/cosmos/cosmos-sdk/server/api"
	srvconfig "github.com/cosmos/cosmos-sdk/server/config"

	"verifharness/lab"
)

// The REST gateway of the node, in process: the application's own RegisterAPIRoutes on an
// api.Server whose client context talks to the application through the ABCI Query call (what a
// node's gateway does through its local RPC client). Requests are served by the grpc-gateway
// mux directly (no socket). This is how C17 observes which handler answers the bank module's
// supply endpoints ("which replace the bank module's supply endpoints for clients").

type abciRPC struct {
	client.TendermintRPC // every other method: nil (never called by query handlers)
	c                    *lab.Chain
}

func (r abciRPC) ABCIQueryWithOptions(_ context.Context, path string, data bytes.HexBytes, opts rpcclient.ABCIQueryOptions) (*coretypes.ResultABCIQuery, error) {
	var resp abci.ResponseQuery
	func() {
		defer func() {
			if p := recover(); p != nil {
				resp = abci.ResponseQuery{Code: 1, Log: fmt.Sprint("panic: ", p)}
			}
		}()
		resp = r.c.App.Query(abci.RequestQuery{Path: path, Data: data, Height: opts.Height, Prove: opts.Prove})
	}()
	return &coretypes.ResultABCIQuery{Response: resp}, nil
}

func (r abciRPC) ABCIQuery(ctx context.Context, path string, data bytes.HexBytes) (*coretypes.ResultABCIQuery, error) {
	return r.ABCIQueryWithOptions(ctx, path, data, rpcclient.DefaultABCIQueryOptions)
}

// Gateway is the node's REST gateway for one lab chain.
type Gateway struct {
	srv *api.Server
}

func NewGateway(c *lab.Chain) (g *Gateway, err error) {
	defer func() {
		if p := recover(); p != nil {
			err = fmt.Errorf("gateway setup panicked: %v", p)
		}
	}()
	cctx := client.Context{}.
		WithCodec(c.App.AppCodec()).
		WithInterfaceRegistry(c.App.InterfaceRegistry()).
		WithTxConfig(c.App.TxConfig()).
		WithChainID(lab.ChainID).
		WithClient(abciRPC{c: c})
	srv := api.New(cctx, log.NewNopLogger())
	c.App.RegisterAPIRoutes(srv, srvconfig.APIConfig{Swagger: false})
	return &Gateway{srv: srv}, nil
}

// Get serves one GET request and decodes the JSON body.
func (g *Gateway) Get(url string) (status int, body map[string]interface{}, raw string) {
	req := httptest.NewRequest(http.MethodGet, url, nil)
	rec := httptest.NewRecorder()
	g.srv.GRPCGatewayRouter.ServeHTTP(rec, req)
	raw = rec.Body.String()
	_ = json.Unmarshal(rec.Body.Bytes(), &body)
	return rec.Code, body, raw
}
