package sim

import (
	"fmt"
	"math/big"
	"sort"

	sdk "github.com/cosmos/cosmos-sdk/types"
)

// C06: admission (CheckTx code 0) of a transaction that would execute WRKChain /
// BEACON operations implies, per fee denomination, offered amount == oracle sum
// and payer liquid + locked >= that amount. One direction only, as stated.

type c06Snap struct {
	bal, locked map[string]*big.Int
}

func init() {
	register(Hooks{
		Prop: "C06",
		BeforeTx: func(w *World, bt *BuiltTx) {
			if !bt.Tx.Check || bt.Payer.Bytes == nil {
				return
			}
			ctx := w.C.CheckCtx()
			s := &c06Snap{bal: map[string]*big.Int{}, locked: map[string]*big.Int{}}
			for _, c := range w.C.App.BankKeeper.GetAllBalances(ctx, bt.Payer.Bytes) {
				s.bal[c.Denom] = c.Amount.BigInt()
			}
			l := w.C.App.EnterpriseKeeper.GetLockedUndAmountForAccount(ctx, bt.Payer.Bytes)
			s.locked[l.Denom] = l.Amount.BigInt()
			bt.Snap["c06"] = s
		},
		AfterTx: func(w *World, bt *BuiltTx) {
			if !bt.Tx.Check || bt.CheckRes == nil {
				return
			}
			nFee, nested, hasWrk, hasBcn := 0, false, false, false
			for _, o := range bt.Ops {
				if !o.IsFeeOp {
					continue
				}
				nFee++
				if bt.Tx.Wrap == WrapExec || bt.Tx.Wrap == WrapExec2 {
					nested = true
				}
				if o.Module == "wrk" {
					hasWrk = true
				} else {
					hasBcn = true
				}
			}
			if nFee == 0 || bt.Tx.Wrap == WrapGov {
				return // messages inside a proposal do not execute in this transaction
			}
			if bt.Expect.Verdict == MustReject && nested {
				// "a transaction that would execute ...": a wrapped transaction the models know cannot execute its
				// nested operation (no grant, unknown id) is outside the statement; top-level operations are always
				// attempted, so top-level transactions are always judged
				w.Class("c06.cannot-execute")
				return
			}
			if bt.Tx.Fault == 0 {
				w.Class("c06.feeop-tx-reaching-fee-checks")
				w.Class(fmt.Sprintf("c06.feemode.%d", bt.Tx.Fee.Mode))
			}
			if bt.CheckRes.Code != 0 {
				if bt.Tx.Fee.Mode == FeeExact && bt.Tx.Fault == 0 && bt.Tx.Wrap == WrapTop {
					w.Class("c06.exact-fee-rejected")
					// directed search: the exact fee was refused, so look for the amount this state does admit
					// (sums over strict subsets of the operations, and the neighbours of the exact sum). An admitted
					// variant is judged by this same oracle (fee != oracle sum -> finding).
					c06Probe(w, bt)
				}
				return
			}
			w.Class("c06.admitted")
			if bt.Tx.Fee.Mode == FeeExact {
				w.Class("c06.admitted-exact")
			}
			if !nested && !(hasWrk && hasBcn) {
				// the node's mempool keeps what it admitted and re-checks it after every commit
				mp, _ := w.Notes["c06.mempool"].([]*BuiltTx)
				if len(mp) < 24 {
					bt.Snap["c06.fee-at-admission"] = w.ExpectedFees(bt.Ops)
					w.Notes["c06.mempool"] = append(mp, bt)
				}
			}
			exp := w.ExpectedFees(bt.Ops)
			snap, _ := bt.Snap["c06"].(*c06Snap)
			for d, want := range exp {
				got := bt.Fee.AmountOf(d).BigInt()
				sig := ""
				switch {
				case nested:
					sig = "C06/nested-exec-no-fee"
				case hasWrk && hasBcn:
					// the listed finding: each module's decorator compares the whole fee with its own module's sum only, so
					// such a transaction is admitted exactly when the fee equals the WRKChain sum and equals the BEACON sum.
					// Any other admitted amount is a different violation.
					var wOps, bOps []*BuiltOp
					for _, o := range bt.Ops {
						if o.IsFeeOp && o.Module == "wrk" {
							wOps = append(wOps, o)
						} else if o.IsFeeOp {
							bOps = append(bOps, o)
						}
					}
					if ws, bs := w.ExpectedFees(wOps)[d], w.ExpectedFees(bOps)[d]; ws != nil && bs != nil && got.Cmp(ws) == 0 && got.Cmp(bs) == 0 {
						sig = "C06/shared-fee-across-modules"
					}
				}
				if got.Cmp(want) != 0 {
					msg := fmt.Sprintf("admitted by CheckTx with %s%s offered in the fee denomination (full fee %s) but the operations cost exactly %s%s (wrap=%d, ops=%d)", got, d, bt.Fee, want, d, bt.Tx.Wrap, len(bt.Ops))
					if sig != "" {
						w.FailSig("C06", sig, "%s", msg)
					} else {
						w.Fail("C06", "%s", msg)
					}
					return
				}
				if snap != nil {
					have := new(big.Int)
					if b := snap.bal[d]; b != nil {
						have.Add(have, b)
					}
					if l := snap.locked[d]; l != nil {
						have.Add(have, l)
					}
					if have.Cmp(want) < 0 {
						if nested {
							// the listed finding's root cause: for nested operations the module decorators do not run at
							// all, so their payer-funds pre-check is skipped like the fee comparison (a fee granter pays)
							w.FailSig("C06", "C06/nested-exec-no-fee", "admitted although the payer holds only %s%s liquid+locked and the fee is %s (wrap=%d)", have, d, want, bt.Tx.Wrap)
						} else {
							w.Fail("C06", "admitted although the payer holds only %s%s liquid+locked and the fee is %s", have, d, want)
						}
						return
					}
				}
			}
		},
		AfterCommit: func(w *World) {
			mp, _ := w.Notes["c06.mempool"].([]*BuiltTx)
			var keep []*BuiltTx
			for _, bt := range mp {
				r, pan := w.C.ReCheckTx(bt.Bytes)
				exp := w.ExpectedFees(bt.Ops)
				then, _ := bt.Snap["c06.fee-at-admission"].(map[string]*big.Int)
				changed := len(then) != len(exp)
				for d, v := range exp {
					if then[d] == nil || then[d].Cmp(v) != 0 {
						changed = true
					}
				}
				if pan != nil || r.Code != 0 {
					if changed {
						w.Class("c06.recheck-evicted-after-fee-change")
					}
					continue // evicted
				}
				keep = append(keep, bt)
				w.Class("c06.recheck-kept")
				for d, want := range exp {
					if got := bt.Fee.AmountOf(d).BigInt(); got.Cmp(want) != 0 {
						w.Fail("C06", "kept in the mempool by the re-check (CheckTx type Recheck, code 0) with %s%s offered in the fee denomination (full fee %s) while the operations now cost exactly %s%s", got, d, bt.Fee, want, d)
						return
					}
				}
			}
			w.Notes["c06.mempool"] = keep
		},
	})
}

func c06Probe(w *World, bt *BuiltTx) {
	var feeOps []*BuiltOp
	for _, o := range bt.Ops {
		if o.IsFeeOp {
			feeOps = append(feeOps, o)
		}
	}
	if len(feeOps) == 0 || len(feeOps) > 5 || w.Notes["c06.probing"] == true {
		return
	}
	exact := w.ExpectedFees(feeOps)
	if len(exact) != 1 {
		return // two fee denominations: not probed
	}
	var total *big.Int
	for _, v := range exact {
		total = v
	}
	cands := map[string]bool{}
	add := func(v *big.Int) {
		if v.Sign() >= 0 && v.Cmp(total) != 0 {
			cands[v.String()] = true
		}
	}
	add(new(big.Int).Sub(total, big.NewInt(1)))
	add(new(big.Int).Add(total, big.NewInt(1)))
	if total.BitLen() > 63 {
		// what a sum computed in 64-bit arithmetic would come to
		add(new(big.Int).Mod(total, pow2(64)))
		add(new(big.Int).Mod(total, pow2(63)))
		w.Class("c06.exact-fee-above-2^63")
	}
	for mask := 1; mask < (1<<uint(len(feeOps)))-1; mask++ {
		var sub []*BuiltOp
		for i, o := range feeOps {
			if mask&(1<<uint(i)) != 0 {
				sub = append(sub, o)
			}
		}
		for _, v := range w.ExpectedFees(sub) {
			add(v)
		}
	}
	if w.S.MinGasPrices != "" {
		// the node's own mempool policy (minimum gas price x gas limit) may be what refused the exact fee: offer
		// exactly that amount, which is more than the operations cost
		if prices, err := sdk.ParseDecCoins(w.S.MinGasPrices); err == nil {
			gas := bt.Tx.Gas
			if gas == 0 {
				gas = DefaultGas
			}
			for d := range exact {
				need := prices.AmountOf(d).MulInt(sdk.NewIntFromUint64(gas)).Ceil().RoundInt().BigInt()
				if need.Cmp(total) > 0 {
					add(need)
					w.Class("c06.probe-at-node-min-gas-fee")
				}
			}
		}
	}
	w.Notes["c06.probing"] = true
	defer delete(w.Notes, "c06.probing")
	keys := make([]string, 0, len(cands))
	for c := range cands {
		keys = append(keys, c)
	}
	sort.Slice(keys, func(i, j int) bool { return parseBig(keys[i]).Cmp(parseBig(keys[j])) > 0 })
	for n, c := range keys {
		if n >= 14 {
			break
		}
		t := *bt.Tx
		t.Ops = append([]Op{}, bt.Tx.Ops...)
		t.Fee = FeeSpec{Mode: FeeLiteral, Amt: c}
		w.Class("c06.directed-probe")
		w.RunTx(&t)
		if w.stop() {
			return
		}
	}
}
