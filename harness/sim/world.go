package sim

import (
	"fmt"
	"math/big"
	"os"
	"sort"
	"strings"
	"time"

	abci "github.com/cometbft/cometbft/abci/types"
	sdk "github.com/cosmos/cosmos-sdk/types"
	govv1 "github.com/cosmos/cosmos-sdk/x/gov/types/v1"

	"verifharness/lab"
)

// ErrPanicCode is the ABCI code baseapp's recovery middleware assigns to a
// recovered panic (sdkerrors.ErrPanic).
const ErrPanicCode = 111222

// Finding is a disagreement between implementation and oracle.
type Finding struct {
	Prop string `json:"prop"`
	Sig  string `json:"sig,omitempty"` // known-finding signature that explains it, if any
	Msg  string `json:"msg"`
	At   string `json:"at,omitempty"`
}

// Addr is an entry of the extended address book.
type Addr struct {
	Bytes sdk.AccAddress
	Acct  *lab.Account // nil for receive-only addresses
	Name  string
}

func (a Addr) Key() string { return string(a.Bytes) }

func (a Addr) Str(upper bool) string {
	s := a.Bytes.String()
	if upper {
		return strings.ToUpper(s)
	}
	return s
}

// Hooks are the observation points an oracle can attach to.
type Hooks struct {
	Prop        string
	Init        func(w *World)
	BeforeBegin func(w *World, now time.Time)
	AfterBegin  func(w *World, resp abci.ResponseBeginBlock)
	BeforeTx    func(w *World, t *BuiltTx)
	AfterTx     func(w *World, t *BuiltTx)
	AfterEnd    func(w *World, resp abci.ResponseEndBlock)
	AfterCommit func(w *World)
	Finish      func(w *World)
}

var registry = map[string]Hooks{}

func register(h Hooks) { registry[h.Prop] = h }

// Proposal tracks a governance proposal submitted by the scenario.
type Proposal struct {
	ID     uint64
	Op     Op
	Done   bool
	Passed bool
}

// World is one case being executed: the chain, the models and the findings.
type World struct {
	C    *lab.Chain
	S    *Scenario
	Ent  *EntModel
	Wrk  *RegModel
	Bcn  *RegModel
	Str  *StreamModel
	Book []Addr
	NAcc int

	hooks    []Hooks
	Enabled  map[string]bool
	Findings []Finding
	Diverged bool
	Known    *KnownSet
	Classes  map[string]int
	Notes    map[string]interface{} // oracle scratch space

	Grants       map[string]bool // "granterKey|granteeKey"
	FeeGrants    map[string]bool
	Ghosts       []Ghost
	Proposals    []*Proposal
	NextPropID   uint64
	strCounter   int
	EntPrev      map[uint64]int
	EntOutcomes  []TallyOutcome
	EntCompleted []*Order
	Restarts     int // network restarts from an exported genesis so far
	RepeatIdx    int
	BlockIdx     int
	TxIdx        int
	Trace        []string // short human-readable history (for samples / replays)
	TraceOn      bool
	AppHashes    [][]byte
	TxResults    []TxResult
	SkipCheckTx  bool // C01: node B does not run mempool checks
	AliasTo      string
	Alias        map[string]string // aliased property -> params kind whose update makes it count
}

// TxResult is the consensus-relevant part of a DeliverTx response.
type TxResult struct {
	Code      uint32
	Codespace string
	Data      []byte
	GasWanted int64
	GasUsed   int64
}

// Alias: oracles of other properties run as probes of this one. A finding of an
// aliased property counts for AliasTo once a parameter update of the named module
// has been applied in this case ("after a successful update every fee check, limit
// check, quorum tally and fee split uses the new values"); before that it is the
// other property's business and only ends the case.
func (w *World) aliasProp(prop string) (string, bool) {
	if w.AliasTo == "" || prop == w.AliasTo {
		return prop, true
	}
	cls, ok := w.Alias[prop]
	if !ok {
		return prop, true
	}
	if w.Classes["gov.passed."+cls] > 0 {
		return w.AliasTo, true
	}
	w.Diverged = true
	return prop, false
}

func (w *World) Fail(prop, format string, args ...interface{}) {
	msg := fmt.Sprintf(format, args...)
	if p, keep := w.aliasProp(prop); !keep {
		return
	} else if p != prop {
		msg = fmt.Sprintf("[%s oracle, after a parameter update] %s", prop, msg)
		prop = p
	}
	w.Findings = append(w.Findings, Finding{Prop: prop, Msg: msg, At: fmt.Sprintf("block %d tx %d", w.BlockIdx, w.TxIdx)})
}

// FailSig records a finding that matches a known-finding signature predicate.
func (w *World) FailSig(prop, sig, format string, args ...interface{}) {
	msg := fmt.Sprintf(format, args...)
	if p, keep := w.aliasProp(prop); !keep {
		return
	} else if p != prop {
		msg = fmt.Sprintf("[%s oracle, after a parameter update] %s", prop, msg)
		prop = p
	}
	w.Findings = append(w.Findings, Finding{Prop: prop, Sig: sig, Msg: msg, At: fmt.Sprintf("block %d tx %d", w.BlockIdx, w.TxIdx)})
}

func (w *World) Class(name string) { w.Classes[name]++ }

func (w *World) On(prop string) bool { return w.Enabled[prop] }

// stop: a finding for an enabled property ends the case (model and
// implementation have diverged); findings of other properties are ignored by
// the caller but also end the case when they involve model state.
func (w *World) stop() bool {
	if w.Diverged {
		return true
	}
	for _, f := range w.Findings {
		if w.Enabled[f.Prop] {
			return true
		}
	}
	return false
}

// Relevant returns the findings attributed to enabled properties.
func (w *World) Relevant() []Finding {
	var out []Finding
	for _, f := range w.Findings {
		if w.Enabled[f.Prop] {
			out = append(out, f)
		}
	}
	return out
}

func (w *World) tracef(format string, args ...interface{}) {
	if w.TraceOn {
		w.Trace = append(w.Trace, fmt.Sprintf(format, args...))
	}
}

// NewWorld builds the chain for a scenario and wires the oracles of the enabled properties.
func NewWorld(s *Scenario, opts lab.NodeOpts, props ...string) (*World, error) {
	if s.MinGasPrices != "" {
		opts.MinGasPrices = s.MinGasPrices
	}
	c, err := lab.New(s.Gen, opts)
	if err != nil {
		return nil, err
	}
	w := &World{C: c, S: s, Enabled: map[string]bool{}, Classes: map[string]int{}, Notes: map[string]interface{}{},
		Grants: map[string]bool{}, FeeGrants: map[string]bool{}, NextPropID: 1, Known: LoadedKnown()}
	w.Ent = NewEntModel(s.Gen.Ent.StartID)
	w.Wrk = NewRegModel(false, s.Gen.Wrk.StartID)
	w.Bcn = NewRegModel(true, s.Gen.Bcn.StartID)
	w.Str = NewStreamModel()
	for _, a := range c.Accts {
		w.Book = append(w.Book, Addr{Bytes: a.Addr, Acct: a, Name: fmt.Sprintf("acct%d", a.Idx)})
	}
	w.NAcc = len(c.Accts)
	mk := func(n int, fill byte) sdk.AccAddress {
		b := make([]byte, n)
		for i := range b {
			b[i] = fill + byte(i)
		}
		return b
	}
	w.Book = append(w.Book,
		Addr{Bytes: mk(1, 0x07), Name: "raw1"},
		Addr{Bytes: mk(32, 0x20), Name: "raw32"},
		Addr{Bytes: mk(255, 0x01), Name: "raw255"},
		Addr{Bytes: lab.GovAddr(), Name: "gov"},
		Addr{Bytes: lab.ModuleAddr("enterprise"), Name: "enterprise-escrow"},
		Addr{Bytes: lab.ModuleAddr("stream"), Name: "stream-escrow"},
		Addr{Bytes: lab.ModuleAddr("fee_collector"), Name: "fee-collector"},
	)
	// registrations already present in the genesis document
	for i := 0; i < s.Gen.Wrk.PrepopN(); i++ {
		o := w.Book[i%w.NAcc]
		w.Wrk.Regs = append(w.Wrk.Regs, &Registration{ID: uint64(i + 1), Owner: o.Key(), OwnerStr: o.Bytes.String(), Fields: []string{fmt.Sprintf("pre-w%d", i), "pre", "", "geth"}, RegTime: uint64(lab.Epoch.Unix()), Limit: new(big.Int).SetUint64(s.Gen.Wrk.DefLimit)})
	}
	for i := 0; i < s.Gen.Bcn.PrepopN(); i++ {
		o := w.Book[i%w.NAcc]
		w.Bcn.Regs = append(w.Bcn.Regs, &Registration{ID: uint64(i + 1), Owner: o.Key(), OwnerStr: o.Bytes.String(), Fields: []string{fmt.Sprintf("pre-b%d", i), ""}, RegTime: uint64(lab.Epoch.Unix()), Limit: new(big.Int).SetUint64(s.Gen.Bcn.DefLimit)})
	}
	for _, i := range s.Gen.Ent.Whitelist {
		w.Ent.Whitelist[w.Book[i%w.NAcc].Key()] = true
	}
	for _, g := range s.Gen.Grants {
		w.Grants[w.Book[g[0]%w.NAcc].Key()+"|"+w.Book[g[1]%w.NAcc].Key()] = true
	}
	w.SyncParams()
	names := make([]string, 0, len(props))
	for _, p := range props {
		w.Enabled[p] = true
		names = append(names, p)
	}
	sort.Strings(names)
	for _, p := range names {
		if h, ok := registry[p]; ok {
			w.hooks = append(w.hooks, h)
		}
	}
	for _, h := range w.hooks {
		if h.Init != nil {
			h.Init(w)
		}
	}
	return w, nil
}

func (w *World) Close() { w.C.Close() }

// AddHooks attaches a dynamic observer (e.g. a mirror chain) to this case.
func (w *World) AddHooks(h Hooks) { w.hooks = append(w.hooks, h) }

// SyncParams reads the parameters in force from the chain (they are inputs of
// the models; that they are valid and equal the last applied update is C16).
func (w *World) SyncParams() {
	ctx := w.C.Ctx()
	ep := w.C.App.EnterpriseKeeper.GetParams(ctx)
	m := EntParamsM{MinAccepts: ep.MinAccepts, TimeLimit: ep.DecisionTimeLimit, Denom: ep.Denom, Raw: ep.EntSigners}
	for _, s := range strings.Split(ep.EntSigners, ",") {
		a, err := sdk.AccAddressFromBech32(s)
		if err == nil && !a.Empty() {
			m.Signers = append(m.Signers, string(a))
		}
	}
	w.Ent.P = m
	wp := w.C.App.WrkchainKeeper.GetParams(ctx)
	w.Wrk.P = RegParamsM{wp.FeeRegister, wp.FeeRecord, wp.FeePurchaseStorage, wp.Denom, wp.DefaultStorageLimit, wp.MaxStorageLimit}
	bp := w.C.App.BeaconKeeper.GetParams(ctx)
	w.Bcn.P = RegParamsM{bp.FeeRegister, bp.FeeRecord, bp.FeePurchaseStorage, bp.Denom, bp.DefaultStorageLimit, bp.MaxStorageLimit}
	sp := w.C.App.StreamKeeper.GetParams(ctx)
	if !sp.ValidatorFee.IsNil() {
		w.Str.FeeScaled = new(big.Int).Set(sp.ValidatorFee.BigInt())
	}
}

func (w *World) NowUnix() uint64 { return uint64(w.C.Now.Unix()) }
func (w *World) NowMs() int64    { return w.C.Now.UnixMilli() }

// Run executes the whole scenario.
func (w *World) Run() {
	for bi := range w.S.Blocks {
		w.BlockIdx = bi
		w.TxIdx = -1
		if !w.RunBlock(&w.S.Blocks[bi]) {
			break
		}
	}
	if !w.stop() {
		for _, h := range w.hooks {
			if h.Finish != nil {
				h.Finish(w)
			}
		}
	}
}

// stepEntModel takes the enterprise model's begin-block step (completion of accepted orders, tally of raised ones)
// right after the chain's begin-block. Where the statement leaves the outcome open the model follows what the chain
// did; whether what the chain did is allowed is judged by the C03 oracle from EntOutcomes.
func (w *World) stepEntModel() {
	ctx := w.C.Ctx()
	k := w.C.App.EnterpriseKeeper
	w.EntPrev = map[uint64]int{}
	for _, o := range w.Ent.Orders {
		w.EntPrev[o.ID] = o.Status
	}
	w.EntOutcomes, w.EntCompleted = w.Ent.BeginBlock(w.NowUnix(), func(id uint64) int {
		po, ok := k.GetPurchaseOrder(ctx, id)
		if !ok {
			return StNil
		}
		return int(po.Status)
	})
}

// RunBlock executes one block; false = stop the case.
// reimport restarts the network from a genesis document exported from the current state.
func (w *World) reimport() {
	if w.C.InBlock || w.Diverged {
		return
	}
	state, err := w.C.Export()
	if err != nil {
		w.Class("restart.export-failed")
		return
	}
	nc, err := lab.ImportAppState(w.S.Gen, lab.NodeOpts{DB: "mem", SkipGenesisInv: true, MinGasPrices: w.S.MinGasPrices}, state, w.C.Now)
	if err != nil {
		w.Class("restart.import-failed")
		if os.Getenv("VERIF_DEBUG_IMPORT") != "" {
			fmt.Println("IMPORT-FAILED:", short(err.Error()))
		}
		return
	}
	old := w.C
	w.C = nc
	old.Close()
	delete(w.Notes, "c17.gateway")
	w.Restarts++
	w.Class("restart.from-exported-genesis")
	w.tracef("network restarted from the exported genesis (restart %d)", w.Restarts)
}

func (w *World) RunBlock(b *Block) bool {
	if b.Reimport {
		w.reimport()
	}
	dt := b.DtMs
	if dt < 0 {
		dt = 0
	}
	if b.DtRule == 1 || b.DtRule == 2 {
		if st := w.streamRef(b.DtRef); st != nil && st.ZeroMs.IsInt64() {
			d := st.ZeroMs.Int64() - w.NowMs() + (b.DtMs%3-1)*1000
			if b.DtRule == 2 {
				// into the very second that holds the deposit-zero time: a few milliseconds before it, exactly at it,
				// or after it but still within that second
				zero := st.ZeroMs.Int64()
				sec := zero - zero%1000
				at := []int64{sec, zero - 1, zero, zero + 1, sec + 999, zero - zero%1000/2}[b.DtMs%6]
				d = at - w.NowMs()
				w.Class("block.time-inside-the-second-of-a-deposit-zero-time")
			}
			if d > 0 {
				dt = d
			}
		}
	}
	// a time.Duration holds ~292 years; block gaps are capped well below that (block time is monotone)
	if maxDt := int64(200 * 365 * 86400 * 1000); dt > maxDt {
		dt = maxDt
	}
	now := w.C.Now.Add(time.Duration(dt) * time.Millisecond)
	for _, h := range w.hooks {
		if h.BeforeBegin != nil {
			h.BeforeBegin(w, now)
		}
	}
	resp, pan := w.C.BeginBlockAt(now)
	w.tracef("block h=%d t=+%dms", w.C.Height+1, dt)
	if pan != nil {
		w.classifyHalt("BeginBlock", pan)
		return false
	}
	w.stepEntModel()
	for _, h := range w.hooks {
		if h.AfterBegin != nil {
			h.AfterBegin(w, resp)
		}
	}
	if w.stop() {
		return false
	}
	for ti := range b.Txs {
		w.TxIdx = ti
		n := b.Txs[ti].Repeat
		if n < 1 {
			n = 1
		}
		for r := 0; r < n; r++ {
			w.RepeatIdx = r
			w.RunTx(&b.Txs[ti])
			if w.stop() {
				return false
			}
		}
	}
	w.TxIdx = -1
	eresp, pan := w.C.EndBlock()
	if pan != nil {
		w.classifyHalt("EndBlock", pan)
		return false
	}
	w.afterEndBlock()
	for _, h := range w.hooks {
		if h.AfterEnd != nil {
			h.AfterEnd(w, eresp)
		}
	}
	if w.stop() {
		return false
	}
	hash, pan := w.C.Commit()
	if pan != nil {
		w.classifyHalt("Commit", pan)
		return false
	}
	w.AppHashes = append(w.AppHashes, hash)
	for _, h := range w.hooks {
		if h.AfterCommit != nil {
			h.AfterCommit(w)
		}
	}
	return !w.stop()
}

// afterEndBlock: governance proposals execute in EndBlock; refresh parameters
// and proposal outcomes.
func (w *World) afterEndBlock() {
	ctx := w.C.Ctx()
	for _, p := range w.Proposals {
		if p.Done {
			continue
		}
		prop, ok := w.C.App.GovKeeper.GetProposal(ctx, p.ID)
		if !ok {
			p.Done = true
			continue
		}
		if os.Getenv("VERIF_DEBUG_GOV") != "" && p.Op.Rule == 9 && prop.Status != govv1.StatusVotingPeriod {
			fmt.Println("GOV9-RESULT:", p.Op.Kind, prop.Status)
			if msgs, err := prop.GetMsgs(); err == nil && len(msgs) > 0 {
				cctx, _ := ctx.CacheContext()
				if h := w.C.App.MsgServiceRouter().Handler(msgs[0]); h != nil {
					_, err := h(cctx, msgs[0])
					fmt.Printf("GOV9-EXEC: %T err=%v\n", msgs[0], err)
				}
			}
		}
		switch prop.Status {
		case govv1.StatusPassed:
			p.Done, p.Passed = true, true
			w.Class("gov.passed." + p.Op.Kind)
			if p.Op.Kind == EntRaise {
				w.adoptRaisedByGovernance()
			}
			if (p.Op.Kind == EntWL || p.Op.Kind == EntDecide) && p.Op.Rule == 9 && !w.Ent.IsSigner(w.addrName("gov").Key()) {
				// the proposal's message executed although the account it names as signer - the governance account - is not
				// in the signer list in force (a message that fails makes its proposal fail)
				w.Fail("C13", "a proposal carrying %s with the governance account named as signer passed and executed, but the governance account is not an authorised enterprise signer", p.Op.Kind)
			}
		case govv1.StatusFailed, govv1.StatusRejected:
			p.Done = true
		}
	}
	w.SyncParams()
}

// adoptRaisedByGovernance: a passed proposal executed purchase-order messages in end-block; the model takes over the
// orders the chain now has beyond its own (identifier, purchaser, amount and raise time as stored).
func (w *World) adoptRaisedByGovernance() {
	ctx := w.C.Ctx()
	k := w.C.App.EnterpriseKeeper
	for n := 0; n < 64; n++ {
		po, ok := k.GetPurchaseOrder(ctx, w.Ent.NextID)
		if !ok {
			return
		}
		a, err := sdk.AccAddressFromBech32(po.Purchaser)
		if err != nil {
			return
		}
		w.Ent.ApplyRaise(string(a), po.Purchaser, po.Amount.Amount.BigInt(), po.Amount.Denom, po.RaiseTime)
		w.Class("gov.order-raised-by-the-governance-account")
	}
}

// classifyHalt: a panic in BeginBlock/EndBlock/Commit is a chain halt (C14).
func (w *World) classifyHalt(phase string, pan interface{}) {
	msg := fmt.Sprint(pan)
	if len(msg) > 300 {
		msg = msg[:300]
	}
	w.tracef("HALT in %s: %s", phase, msg)
	sig := haltSignature(w, phase, msg)
	if sig != "" {
		w.FailSig("C14", sig, "%s panicked: %s", phase, msg)
	} else {
		w.Fail("C14", "%s panicked: %s", phase, msg)
	}
	// every other oracle loses its footing once the chain has halted
	w.Diverged = true
}
