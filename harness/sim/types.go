// Package sim holds the scenario data model (a case is plain data), the rapid
// generators, the executor that drives a lab chain with a scenario, the exact
// reference models and the per-property oracles.
package sim

import (
	"crypto/sha256"
	"encoding/binary"
	"encoding/json"

	"verifharness/lab"
)

// Op kinds.
const (
	EntRaise   = "ent.raise"
	EntDecide  = "ent.decide"
	EntWL      = "ent.whitelist"
	WrkReg     = "wrk.register"
	WrkRec     = "wrk.record"
	WrkPur     = "wrk.purchase"
	BcnReg     = "bcn.register"
	BcnRec     = "bcn.record"
	BcnPur     = "bcn.purchase"
	StrCreate  = "str.create"
	StrClaim   = "str.claim"
	StrTopUp   = "str.topup"
	StrUpdate  = "str.update"
	StrCancel  = "str.cancel"
	BankSend   = "bank.send"
	StakeDeleg = "staking.delegate"
	ParamsEnt  = "params.ent"
	ParamsWrk  = "params.wrk"
	ParamsBcn  = "params.bcn"
	ParamsStr  = "params.stream"
	AuthzGrant = "authz.grant"
	// BankSendEnabled: the bank's per-denomination transfer switch (MsgSetSendEnabled by the governance authority;
	// Flag = enabled). Only meaningful inside a proposal.
	BankSendEnabled = "bank.sendenabled"
	FeeGrantOp      = "feegrant.grant"
)

// Op is one message of a transaction. References to entities are resolved by
// index modulo the current model population when the transaction is built, so a
// shrunk scenario stays meaningful and a replay needs neither rapid nor a seed.
type Op struct {
	Kind string `json:"kind"`
	// Actor: account index that signs; -1 = the party the operation belongs to
	// (owner of the referenced registration, sender/receiver of the stream,
	// the Peer-th authorised signer for enterprise decisions).
	Actor int `json:"actor"`
	// Named: account index written into the message's signer field; -1 = Actor.
	// Named != Actor makes a message naming X in a tx signed by Y.
	Named int `json:"named"`
	// Peer: second party (receiver, whitelist target, recipient, k-th signer), an
	// index into the extended address book (accounts, then special addresses).
	Peer int `json:"peer"`
	// Ref: k-th existing entity (mod population); -1 unknown id; -2 id zero.
	Ref   int    `json:"ref"`
	Rule  int    `json:"rule"`            // interpretation of N (per kind)
	N     uint64 `json:"n"`               // height / slots / flow rate / submit time / literal
	Lit   uint64 `json:"lit,omitempty"`   // literal order identifier (enterprise decision, Rule 3)
	M     uint64 `json:"m,omitempty"`     // stream: duration seconds
	Amt   string `json:"amt,omitempty"`   // literal amount (decimal) when set
	Denom int    `json:"denom,omitempty"` // denomination selector
	Str   int    `json:"str,omitempty"`   // string-field rule
	Flag  bool   `json:"flag,omitempty"`  // accept / add
	Upper bool   `json:"upper,omitempty"` // upper-case bech32 spelling of address fields
	// Params patch (Params* kinds); raw values so that invalid structures can be expressed.
	P *ParamsPatch `json:"p,omitempty"`
}

// ParamsPatch carries a complete parameter structure for one module. Fields are
// generated at/inside/outside their bounds; strings are literal.
type ParamsPatch struct {
	// enterprise
	Signers    []int  `json:"signers,omitempty"`     // account indices (valid addresses)
	SignersRaw string `json:"signers_raw,omitempty"` // if set, used verbatim (malformed lists)
	// UpperSigner k > 0: the k-th entry of Signers (1-based, modulo) is written in the upper-case bech32 spelling
	UpperSigner int    `json:"upper_signer,omitempty"`
	MinAccepts  uint64 `json:"min_accepts,omitempty"`
	TimeLimit   uint64 `json:"time_limit,omitempty"`
	Denom       string `json:"denom,omitempty"`
	// wrkchain / beacon
	FeeReg   uint64 `json:"fee_reg,omitempty"`
	FeeRec   uint64 `json:"fee_rec,omitempty"`
	FeePur   uint64 `json:"fee_pur,omitempty"`
	DefLimit uint64 `json:"def_limit,omitempty"`
	MaxLimit uint64 `json:"max_limit,omitempty"`
	// stream
	ValFee string `json:"val_fee,omitempty"` // sdk.Dec string; "nil" = nil Dec
	// Steer (valid enterprise patches): adapt the patch to the orders in flight when the proposal is built (see steerEntParams)
	Steer int `json:"steer,omitempty"`
	// authority: 0 gov (correct), 1 an account (Actor), 2 garbage string
	Authority int `json:"authority,omitempty"`
}

// Fee modes (relative to the fee the independent oracle expects).
const (
	FeeExact = iota
	FeeNone
	FeeLower
	FeeHigher
	FeeExactPlusExtraDenom
	FeeOnlyExtraDenom
	FeeLowerPlusExtraDenom
	FeeLiteral
	FeeHigherPlusExtraDenom
	FeeFirstModuleOnly // pay what the first fee-bearing operation's module costs in total, nothing for the other module
	FeeSubset          // pay the oracle sum of a non-empty strict subset of the fee-bearing operations (bitmask in Amt)
)

type FeeSpec struct {
	Mode int    `json:"mode"`
	Amt  string `json:"amt,omitempty"` // literal (FeeLiteral) or delta
	// Extra denomination amount (modes with an extra denom)
	Extra string `json:"extra,omitempty"`
}

// Wrappers.
const (
	WrapTop = iota
	WrapExec
	WrapExec2
	WrapGov
	// WrapExecTail: the first message stays top-level, the others are nested in one MsgExec executed by the first
	// message's signer (an account needs no grant to execute its own messages).
	WrapExecTail
)

type Tx struct {
	Ops     []Op    `json:"ops"`
	Fee     FeeSpec `json:"fee"`
	Gas     uint64  `json:"gas,omitempty"`
	Wrap    int     `json:"wrap,omitempty"`
	Grantee int     `json:"grantee,omitempty"` // account executing a MsgExec
	Fault   int     `json:"fault,omitempty"`   // lab.Fault*
	Granter int     `json:"granter,omitempty"` // fee granter account index+1 (0 = none)
	// FeePayer: account index+1 of an explicit fee payer (AuthInfo.Fee.Payer) who co-signs; 0 = the first signer pays.
	FeePayer int  `json:"fee_payer,omitempty"`
	Check    bool `json:"check,omitempty"` // run CheckTx before DeliverTx
	// TailSelf (WrapExecTail): the messages inside the exec are sent by the first signer in its own name (grantee ==
	// named party: authz executes them without a grant), whoever their targets belong to.
	TailSelf bool `json:"tail_self,omitempty"`
	// Amino: signed with SIGN_MODE_LEGACY_AMINO_JSON (hardware wallets) instead of SIGN_MODE_DIRECT.
	Amino bool `json:"amino,omitempty"`
	// TamperK selects the field that is altered after signing (Fault == lab.FaultTamper).
	TamperK int `json:"tamper_k,omitempty"`
	// Repeat > 1: the transaction is built and delivered that many times in a row (each time resolved
	// against the then-current state): bulk populations around pagination / page-size boundaries.
	Repeat int `json:"repeat,omitempty"`
}

type Block struct {
	DtMs int64 `json:"dt_ms"`
	// DtRule 1: advance to the deposit-zero time of the DtRef-th stream, plus (DtMs mod 3 - 1) seconds.
	// DtRule 2: advance into the second that holds that deposit-zero time (before, at or after it by milliseconds).
	DtRule int  `json:"dt_rule,omitempty"`
	DtRef  int  `json:"dt_ref,omitempty"`
	Txs    []Tx `json:"txs"`
	// Crash: restart points inside this block (C01): 0 none, 1 after BeginBlock,
	// 2 after the K-th DeliverTx, 3 after EndBlock, 4 after Commit.
	Crash  int `json:"crash,omitempty"`
	CrashK int `json:"crash_k,omitempty"`
	// Reimport: before this block the network is restarted from a genesis document: the state is exported, a fresh
	// chain is initialised from the export (InitChain) and the history continues there (heights start again at 1,
	// time continues). If the export cannot be imported the history continues on the old chain (that is C15's concern).
	Reimport bool `json:"reimport,omitempty"`
}

type Scenario struct {
	Gen    lab.GenesisCfg `json:"genesis"`
	Nodes  []lab.NodeOpts `json:"nodes,omitempty"`
	Blocks []Block        `json:"blocks"`
	// MinGasPrices: the minimum-gas-prices setting of the node the history runs on (node-local mempool policy).
	MinGasPrices string `json:"min_gas_prices,omitempty"`
}

func (s *Scenario) JSON() []byte {
	b, err := json.Marshal(s)
	if err != nil {
		panic(err)
	}
	return b
}

// Hash is the 64-bit identity of a case (for distinct counting).
func (s *Scenario) Hash() uint64 {
	h := sha256.Sum256(s.JSON())
	return binary.BigEndian.Uint64(h[:8])
}

func HashJSON(v interface{}) uint64 {
	b, _ := json.Marshal(v)
	h := sha256.Sum256(b)
	return binary.BigEndian.Uint64(h[:8])
}

func (s *Scenario) NumTxs() int {
	n := 0
	for _, b := range s.Blocks {
		n += len(b.Txs)
	}
	return n
}
