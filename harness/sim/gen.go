package sim

import (
	"fmt"
	"math/big"
	"sort"

	"pgregory.net/rapid"

	"verifharness/lab"
)

// Profile steers the scenario generator of one property.
type Profile struct {
	Weights         map[string]int // op kind -> weight
	MinBlocks       int
	MaxBlocks       int
	MaxTxs          int // per block
	MaxOps          int // per tx
	PUpper          int // percent of ops using the upper-case address spelling
	PActor          int // percent of ops with an explicit (possibly unentitled) actor
	PNamed          int // percent of ops naming another account than the signer
	PFault          int // percent of txs with a signing fault
	PExec           int // percent of txs wrapped in MsgExec
	PGovParams      int // percent of blocks that carry a governance parameter change
	PBadRef         int // percent of refs that are unknown / zero
	BigAmounts      bool
	Vesting         bool
	TinyLimits      bool
	ValidParams     bool // governance patches are always valid structures
	EntDenomChange  bool // governance may change the enterprise denomination
	LongTime        bool // allow day/year block gaps
	FeeModes        []int
	DupSigners      bool
	GovKinds        []string // which modules' parameters governance changes (default: all four)
	PCheck          int      // percent of txs that are submitted to CheckTx only (mempool admission)
	SlotRules       []int    // override of the storage-purchase slot rules
	PGranter        int      // percent of txs that name a fee granter (one who granted the payer an allowance, if any)
	SteerExport     bool     // C15: the block before the export point raises an order and funds a stream
	PBulk           int      // per-mille of txs that are repeated 100-260 times in a row (bulk populations)
	LockedActors    bool     // registrations are preferably made by accounts that hold locked eFUND
	PSameKind       int      // percent of follow-up messages in a multi-message tx that repeat the first message's kind, actor and target
	Crashes         bool     // blocks carry restart points (C01)
	GasSweep        bool     // some txs get a gas limit that runs out at an ante / message boundary
	MultiPct        int      // percent of txs with several messages (default 10)
	ManyDenoms      bool     // genesis balances in additional denominations sorting before, around and after the native one
	PExecTail       int      // percent of multi-message txs whose messages after the first are nested in a MsgExec of the first signer
	PEscrow         int      // percent of stream creations / bank sends aimed at a module account (gov, the two escrows), lower or upper case
	PRetry          int      // percent of record/purchase operations that retry an earlier rolled-back attempt (same party, same identifier)
	PForward        int      // percent of follow-up messages after a registration that use that registration (forward reference)
	PMultiTarget    int      // percent of txs starting with a storage purchase that go on purchasing for other targets (neighbours, nonexistent ones)
	PQuorumConflict int      // percent of histories with the motif: orders raised, one signer accepts and another rejects them, and a steered enterprise parameter change is proposed while they are undecided
	HugeFeeParams   bool     // valid registry parameter patches may carry a record fee of 2^63-1, 2^63 or 2^64-1 (in a denomination the accounts are rich in)
	PGovSendSwitch  int      // percent of governance blocks that carry the bank transfer switch for one denomination (mostly off, sometimes on again) instead of a parameter change
	PGovRaise       int      // percent of governance blocks that carry, instead of a parameter change, a purchase order raised by the governance account itself (whitelisted first)
	EntSteerBoth    bool     // valid enterprise parameter patches are always steered, preferably so that both quorums hold at once
	PAmino          int      // percent of txs signed in the legacy amino-JSON mode
	PTamper         int      // percent of faulty txs whose fault is "a message field altered after signing"
	NodeMinGas      bool     // the node may have a minimum-gas-prices setting (mempool policy), and CheckTx-only txs vary their gas limit
	RegDenomMix     bool     // genesis: the WRKChain / BEACON fee denomination may differ from the enterprise denomination
	PReimport       int      // percent of blocks (after the first) before which the network is restarted from an exported genesis
	PFeePayer       int      // percent of txs with an explicit co-signing fee payer (AuthInfo.Fee.Payer)
}

// rapid's integer generators are deliberately biased towards small values and
// boundaries (IntRange(0,99) < 8 holds ~40% of the time), which would turn every
// "rare deviation" into the common case. uni draws a (nearly) uniform index by
// mixing a full-range draw; the shrink target 0 maps to index 0, so shrinking
// removes deviations.
func uni(t *rapid.T, n int, label string) int {
	if n <= 1 {
		return 0
	}
	x := rapid.Uint64().Draw(t, label)
	if x == 0 {
		return 0
	}
	x ^= x >> 30
	x *= 0xbf58476d1ce4e5b9
	x ^= x >> 27
	x *= 0x94d049bb133111eb
	x ^= x >> 31
	return int(x % uint64(n))
}

func uniRange(t *rapid.T, lo, hi int, label string) int {
	if hi <= lo {
		return lo
	}
	return lo + uni(t, hi-lo+1, label)
}

func pct(t *rapid.T, p int, label string) bool {
	if p <= 0 {
		return false
	}
	return uni(t, 100, label) >= 100-p
}

// oneIn is true with probability 1/n (false when shrunk).
func oneIn(t *rapid.T, n int, label string) bool {
	return uni(t, n, label) == n-1
}

func pick[T any](t *rapid.T, xs []T, label string) T {
	return xs[uni(t, len(xs), label)]
}

func pickKind(t *rapid.T, w map[string]int) string {
	keys := make([]string, 0, len(w))
	for k, v := range w {
		if v > 0 {
			keys = append(keys, k)
		}
	}
	sort.Strings(keys)
	total := 0
	for _, k := range keys {
		total += w[k]
	}
	x := uni(t, total, "kind")
	for _, k := range keys {
		if x < w[k] {
			return k
		}
		x -= w[k]
	}
	return keys[0]
}

var smallAmounts = []string{"1", "2", "999", "1000", "5000", "1000000", "123456789", "1000000000000"}
var bigAmounts = []string{
	"9223372036854775807", "9223372036854775808", "18446744073709551615", "18446744073709551616",
	"1000000000000000000", "5000000000000000000000", "340282366920938463463374607431768211456",
	"1606938044258990275541962092341162602522202993782792835301376",
	"57896044618658097711785492504343953926634992332820282019728792003956564819968", // 2^255
}

func genAmount(t *rapid.T, big bool, label string) string {
	if big && oneIn(t, 4, label+"Big") {
		return pick(t, bigAmounts, label)
	}
	if uni(t, 2, label+"Lit") == 0 {
		return pick(t, smallAmounts, label)
	}
	return new(bigInt).SetUint64(rapid.Uint64Range(1, 5_000_000).Draw(t, label)).String()
}

type bigInt = big.Int

// GenGenesis draws a genesis configuration.
func GenGenesis(t *rapid.T, p *Profile) lab.GenesisCfg {
	n := uniRange(t, 6, 9, "nAccounts")
	accts := make([]lab.AcctCfg, n)
	for i := range accts {
		bal := map[string]string{}
		bal["nund"] = pick(t, []string{"1000000000000000", "1000000000000000", "1000000000000", "50000", "0"}, "nund")
		bal["stake"] = "1000000000"
		bal["atto"] = pick(t, []string{"1606938044258990275541962092341162602522202993782792835301376", "1000000000000000000000000000000", "0"}, "atto")
		if i == 0 {
			bal["nund"] = "1000000000000000"
		}
		a := lab.AcctCfg{Kind: lab.KindBase, Bal: bal}
		if p.Vesting && i > 0 && oneIn(t, 4, "vestP") {
			a.Kind = pick(t, []int{lab.KindContVesting, lab.KindDelayedVesting, lab.KindPermLocked}, "vestKind")
			a.VestAmt = pick(t, []string{"1000000000000", "900000000000000", "50000"}, "vestAmt")
			a.VestEnd = pick(t, []int64{50, 1000, 100000000}, "vestEnd")
		}
		if p.ManyDenoms {
			for _, d := range []string{"aaa", "mmm", "nun", "nunda", "ozz", "stakf", "uatom", "zzz", "ibc/27394FB092D2ECCD56123C74F36E4C1F926001CEADA9CA97EA622B25F41E5EB2"} {
				if oneIn(t, 6, "xd"+d) {
					a.Bal[d] = pick(t, []string{"1", "1000", "123456789012345678901234567890"}, "xdAmt")
				}
			}
		}
		if p.ManyDenoms && i == 1 && oneIn(t, 7, "hugeDenoms") {
			// more denominations than one default page (100) or two of them hold: IBC vouchers accumulate like this
			k := pick(t, []int{95, 99, 100, 101, 150, 199, 201, 230, 260}, "hugeDenomsN")
			for j := 0; j < k; j++ {
				a.Bal[fmt.Sprintf("d%03d", j)] = "1"
			}
		}
		accts[i] = a
	}
	idx := make([]int, n)
	for i := range idx {
		idx[i] = i
	}
	nSign := uniRange(t, 1, 4, "nSigners")
	perm := rapid.Permutation(idx).Draw(t, "signerPerm")
	signers := append([]int{}, perm[:nSign]...)
	if p.DupSigners && nSign > 1 && oneIn(t, 6, "dupSigner") {
		signers[nSign-1] = signers[0]
	}
	ent := lab.EntCfg{
		Signers:    signers,
		MinAccepts: uint64(uniRange(t, 1, nSign, "minAccepts")),
		TimeLimit:  pick(t, []uint64{5, 6, 10, 30, 200}, "timeLimit"),
		Denom:      "nund",
		StartID:    pick(t, []uint64{1, 1, 2, 3, 7, 1 << 32, 254, 255, 65534, 1<<32 - 2}, "entStart"),
	}
	perm2 := rapid.Permutation(idx).Draw(t, "wlPerm")
	ent.Whitelist = append([]int{}, perm2[:uniRange(t, 1, 4, "nWL")]...)
	reg := func(tag string) lab.RegCfg {
		r := lab.RegCfg{
			FeeReg:  pick(t, []uint64{1000, 1000, 1, 77, 1000000000000}, tag+"FeeReg"),
			FeeRec:  pick(t, []uint64{10, 10, 1, 1000, 3}, tag+"FeeRec"),
			FeePur:  pick(t, []uint64{5, 5, 1, 1000, 2}, tag+"FeePur"),
			Denom:   "nund",
			StartID: pick(t, []uint64{1, 1, 7, 1 << 32, 253, 254, 255, 65534, 65535, 1<<32 - 2}, tag+"Start"),
		}
		if p.RegDenomMix && oneIn(t, 5, tag+"Denom") {
			r.Denom = pick(t, []string{"stake", "atto"}, tag+"DenomV")
		}
		if oneIn(t, 5, tag+"Prepop") {
			r.Prepop = uniRange(t, 1, 3, tag+"PrepopN")
		}
		if oneIn(t, 14, tag+"HugeFee") {
			// legal but enormous per-slot fee: fee x slots reaches 2^64 for a handful of slots
			r.FeePur = pick(t, hugeFees, tag+"HugeFeeV")
		}
		if p.TinyLimits {
			r.DefLimit = uint64(uniRange(t, 1, 4, tag+"Def"))
			r.MaxLimit = r.DefLimit + uint64(uniRange(t, 0, 8, tag+"MaxExtra"))
		} else {
			r.DefLimit = uint64(uniRange(t, 1, 50, tag+"Def"))
			r.MaxLimit = r.DefLimit + uint64(uniRange(t, 0, 100, tag+"MaxExtra"))
		}
		return r
	}
	g := lab.GenesisCfg{
		Accounts:  accts,
		Ent:       ent,
		Wrk:       reg("wrk"),
		Bcn:       reg("bcn"),
		StreamFee: pick(t, []string{"0.01", "0", "1", "0.000000000000000001", "0.5", "0.123456789012345678", "0.24"}, "streamFee"),
		MaxGas:    -1,
	}
	nG := uniRange(t, 0, 10, "nGrants")
	for i := 0; i < nG; i++ {
		a := uniRange(t, 0, n-1, "granter")
		b := uniRange(t, 0, n-1, "grantee")
		g.Grants = append(g.Grants, [2]int{a, b})
	}
	return g
}

func genRef(t *rapid.T, p *Profile) int {
	if pct(t, p.PBadRef, "badRef") {
		return pick(t, []int{-1, -2, -5, -5}, "badRefKind")
	}
	if oneIn(t, 8, "farRef") {
		// far into a large population (the reference is taken modulo the population)
		return pick(t, []int{50, 99, 100, 101, 127, 128, 199, 200, 255, 256, 1000003}, "farRefV")
	}
	return uniRange(t, 0, 7, "ref")
}

var flowRates = []uint64{1, 1, 2, 10, 100, 1000, 1000000, 1000000000000000000, 9223372036854775807, 4611686018427387904, 3}
var durations = []uint64{60, 61, 100, 3600, 86400, 31536000, 9223372036, 9223372037, 10000000000, 100000000000, 59, 120}

// GenOp draws one operation of the given kind.
func GenOp(t *rapid.T, p *Profile, kind string, nAcc int) Op {
	op := Op{Kind: kind, Actor: -1, Named: -1}
	op.Peer = uniRange(t, 0, nAcc-1, "peer")
	op.Upper = pct(t, p.PUpper, "upper")
	if pct(t, p.PActor, "explicitActor") {
		op.Actor = uniRange(t, 0, nAcc-1, "actor")
	}
	if pct(t, p.PNamed, "namedOther") {
		op.Named = uniRange(t, 0, nAcc-1, "named")
		if op.Actor < 0 {
			op.Actor = uniRange(t, 0, nAcc-1, "actor2")
		}
	}
	switch kind {
	case EntRaise:
		op.Amt = genAmount(t, p.BigAmounts, "amt")
		op.Denom = pick(t, []int{0, 0, 0, 0, 0, 0, 1, 2}, "denom")
		if oneIn(t, 31, "zeroAmt") {
			op.Amt = "0"
		}
	case EntDecide:
		op.Ref = genRef(t, p)
		if oneIn(t, 10, "anyOrder") {
			op.Rule = 1
		}
		if oneIn(t, 16, "batchDecide") {
			op.Rule = 2 // batch approval: one decision per order still open for this signer, in one transaction
		}
		op.Flag = uni(t, 10, "accept") < 7
	case EntWL:
		op.Flag = uni(t, 10, "add") < 7
		op.N = uint64(uniRange(t, 0, 3, "signerK"))
		if oneIn(t, 10, "rawTarget") {
			op.Peer = nAcc + uniRange(t, 0, 3, "rawPeer")
		}
	case WrkReg, BcnReg:
		op.Str = strRule(t)
		if oneIn(t, 12, "regAgain") {
			op.Rule, op.Ref = 2, uniRange(t, 0, 7, "regAgainRef")
		}
		if p.LockedActors && uni(t, 3, "lockedActor") != 0 {
			op.Rule = 1 // resolved at build time: an account with completed purchase orders, if any
		}
	case WrkRec:
		op.Ref = genRef(t, p)
		if pct(t, p.PRetry, "retry") {
			op.Ref = -5
		}
		op.Rule = pick(t, []int{0, 0, 0, 0, 0, 0, 1, 2, 3, 3, 4, 5}, "hRule")
		op.N = pick(t, []uint64{0, 1, 2, 5, 1 << 32, 1 << 63, ^uint64(0) - 1}, "hN")
		op.Str = strRule(t)
	case BcnRec:
		op.Ref = genRef(t, p)
		if pct(t, p.PRetry, "retry") {
			op.Ref = -5
		}
		op.Rule = uniRange(t, 0, 4, "stRule")
		op.N = pick(t, []uint64{1, 1700000000, 0, 5, 1 << 63, ^uint64(0)}, "subTime")
		op.Str = strRule(t)
	case WrkPur, BcnPur:
		op.Ref = genRef(t, p)
		if pct(t, p.PRetry, "retry") {
			op.Ref = -5
		}
		rules := []int{0, 0, 0, 0, 1, 2, 3, 4, 5, 6, 7}
		if len(p.SlotRules) > 0 {
			rules = p.SlotRules
		}
		op.Rule = pick(t, rules, "slotRule")
		op.N = pick(t, []uint64{0, 1, 2, 3, 7, 100}, "slotN")
	case StrCreate:
		op.Denom = pick(t, []int{0, 0, 1, 1, 2}, "sDenom")
		op.N = pick(t, flowRates, "rate")
		if oneIn(t, 6, "rateRand") {
			op.N = rapid.Uint64Range(1, 100000).Draw(t, "rateLit")
		}
		op.M = pick(t, durations, "dur")
		if oneIn(t, 4, "durRand") {
			op.M = rapid.Uint64Range(60, 5000).Draw(t, "durLit")
		}
		op.Amt = pick(t, []string{"0", "0", "1", "7", "-1", "-2", "-4"}, "rem") // deposit = rate x duration + remainder (just above / just below a whole number of seconds)
		if p.LongTime && oneIn(t, 14, "zeroAtTimeMax") {
			// the stream runs dry around the last instant a protobuf timestamp can hold (year 9999): rate 1-3, duration
			// chosen at build time, a few hours before or after that instant
			op.Rule = 6
			op.M = uint64(uniRange(t, 0, 10, "timeMaxOffset"))
		}
		if oneIn(t, 10, "rawRecv") {
			op.Peer = nAcc + uniRange(t, 0, 5, "rawPeer")
		}
		if pct(t, p.PEscrow, "escrowRecv") {
			// the receiver is a module account (governance, the enterprise escrow, the stream escrow), in either spelling
			op.Peer = nAcc + pick(t, []int{3, 4, 4, 5}, "escrowPeer")
			op.Upper = uni(t, 2, "escrowUpper") == 1
		}
		if oneIn(t, 41, "selfStream") {
			op.Ref = -3
		}
	case StrClaim, StrCancel:
		op.Ref = genRef(t, p)
	case StrTopUp:
		op.Ref = genRef(t, p)
		op.M = pick(t, []uint64{1, 10, 60, 3600, 9223372037, 0}, "extDur")
		op.Amt = pick(t, []string{"0", "0", "1", "-1", "-3"}, "rem")
		op.Rule = pick(t, []int{0, 0, 0, 0, 1, 7}, "tuRule")
		if op.Rule == 1 {
			op.Amt = genAmount(t, p.BigAmounts, "tuAmt")
		}
	case StrUpdate:
		op.Ref = genRef(t, p)
		op.N = pick(t, flowRates, "newRate")
		if oneIn(t, 4, "rateRand") {
			op.N = rapid.Uint64Range(1, 100000).Draw(t, "rateLit")
		}
		if oneIn(t, 26, "rate0") {
			op.N = 0
		}
	case BankSend:
		op.Amt = genAmount(t, false, "sendAmt")
		op.Denom = pick(t, []int{0, 0, 1, 2}, "bDenom")
		if oneIn(t, 3, "toSpecial") {
			op.Peer = nAcc + uniRange(t, 0, 6, "special")
		}
		if pct(t, p.PEscrow, "escrowTo") {
			op.Peer = nAcc + pick(t, []int{3, 4, 4, 5, 6}, "escrowPeer")
			op.Upper = uni(t, 2, "escrowUpper") == 1
		}
	case StakeDeleg:
		op.Amt = pick(t, []string{"1", "1000", "1000000"}, "delegAmt")
	case AuthzGrant:
		op.N = uint64(uniRange(t, 0, len(lab.CustomMsgURLs)-1, "url"))
	case ParamsEnt, ParamsWrk, ParamsBcn, ParamsStr:
		op.P = GenParams(t, p, kind, nAcc)
	}
	return op
}

func strRule(t *rapid.T) int {
	if !oneIn(t, 4, "strPlain") {
		return 0
	}
	return uniRange(t, 0, 1727, "strRule")
}

// per-slot fees for which fee x n reaches or passes 2^64 for small n (2^62 x 4, 2^61 x 8, (2^64+2)/3 x 3, (2^63-1) x 3)
var hugeFees = []uint64{1 << 62, 1 << 61, 6148914691236517206, 6148914691236517206, 3689348814741910324, 3074457345618258603, 2635249153387078803, 1<<63 - 1}

var denomsValid = []string{"nund", "nund", "nund", "atto", "stake", "abc", "ibc/27394FB092D2ECCD56123C74F36E4C1F926001CEADA9CA97EA622B25F41E5EB2"}
var denomsInvalid = []string{"", " ", "a", "1abc", "n und", "NUND!", "x#y", " nund", "nund ", "nund\n", "\tnund", " stake\t"}
var u64Bounds = []uint64{0, 1, 2, 5, 10, 1000, 1<<63 - 1, 1 << 63, ^uint64(0)}

// GenParams draws a complete parameter structure, valid or invalid.
func GenParams(t *rapid.T, p *Profile, kind string, nAcc int) *ParamsPatch {
	pp := &ParamsPatch{}
	invalid := !p.ValidParams && oneIn(t, 3, "invalidParams")
	if !p.ValidParams && oneIn(t, 13, "badAuth") {
		pp.Authority = uniRange(t, 1, 2, "authKind")
	}
	switch kind {
	case ParamsEnt:
		n := uniRange(t, 1, 4, "nSigners")
		idx := make([]int, nAcc)
		for i := range idx {
			idx[i] = i
		}
		perm := rapid.Permutation(idx).Draw(t, "perm")
		pp.Signers = append([]int{}, perm[:n]...)
		pp.MinAccepts = uint64(uniRange(t, 1, n, "minAcc"))
		pp.TimeLimit = pick(t, []uint64{5, 6, 10, 30, 200, 1, ^uint64(0)}, "limit")
		pp.Denom = "nund"
		if oneIn(t, 3, "entSteer") {
			pp.Steer = uniRange(t, 1, 3, "entSteerKind")
		}
		if p.EntSteerBoth {
			pp.Steer = 3
		}
		if oneIn(t, 5, "upperSigner") {
			pp.UpperSigner = uniRange(t, 1, 4, "upperSignerK")
		}
		if p.EntDenomChange && oneIn(t, 4, "entDenom") {
			pp.Denom = pick(t, denomsValid, "entDenomV")
		}
		if invalid {
			pp.Steer = 0
			switch uniRange(t, 0, 6, "entBad") {
			case 0:
				pp.MinAccepts = 0
			case 1:
				pp.MinAccepts = uint64(n + 1)
			case 2:
				pp.TimeLimit = 0
			case 3:
				pp.Denom = pick(t, denomsInvalid, "badDenom")
			case 4:
				// {k} is replaced by the address of account k when the message is built
				pp.SignersRaw = pick(t, []string{"", ",", "und1notanaddress", "und1qqqqqqqqqqqqqqqqqqqqqqqqqqqqqqqq5x8kpm,", ",und1qqqqqqqqqqqqqqqqqqqqqqqqqqqqqqqq5x8kpm", "cosmos1qqqqqqqqqqqqqqqqqqqqqqqqqqqqqqqqnrql8a",
					"{0}, {1}", " {0}", "{0} ", "{0}\t,{1}", "{0},\n{1}", "{0},{1},", "{0};{1}", "{0},{0}x"}, "rawSigners")
				pp.MinAccepts = 1
			case 5:
				pp.Signers = nil
				pp.SignersRaw = ""
				pp.MinAccepts = 1
			default:
				pp.MinAccepts = ^uint64(0)
			}
		}
	case ParamsWrk, ParamsBcn:
		pp.FeeReg = pick(t, []uint64{1000, 1, 77, 2000, 1000000000000}, "feeReg")
		pp.FeeRec = pick(t, []uint64{10, 1, 1000, 3, 20}, "feeRec")
		pp.FeePur = pick(t, []uint64{5, 1, 1000, 2, 9}, "feePur")
		pp.Denom = "nund"
		if oneIn(t, 5, "regDenom") {
			pp.Denom = pick(t, []string{denomsValid[len(denomsValid)-1], "atto", "stake", denomsValid[len(denomsValid)-1], "abc"}, "regDenomV") // the fee denomination may be any well-formed denomination (an IBC voucher, another token)
		}
		pp.DefLimit = uint64(uniRange(t, 1, 6, "def"))
		pp.MaxLimit = pp.DefLimit + uint64(uniRange(t, 0, 8, "maxExtra"))
		if oneIn(t, 4, "lowMax") {
			pp.DefLimit = 1
			pp.MaxLimit = uint64(uniRange(t, 1, 3, "lowMaxV"))
		}
		if invalid {
			switch uniRange(t, 0, 6, "regBad") {
			case 0:
				pp.FeeReg = 0
			case 1:
				pp.FeeRec = 0
			case 2:
				pp.FeePur = 0
			case 3:
				pp.DefLimit = 0
			case 4:
				pp.MaxLimit = 0
			case 5:
				pp.DefLimit = pp.MaxLimit + 1
			default:
				pp.Denom = pick(t, denomsInvalid, "badDenom")
			}
		} else if (!p.ValidParams || p.HugeFeeParams) && oneIn(t, 7, "hugeFee") {
			pp.FeeRec = pick(t, []uint64{1<<63 - 1, 1 << 63, ^uint64(0)}, "hugeFeeV")
			if p.HugeFeeParams {
				pp.Denom = "atto" // the denomination in which the accounts could afford such a fee
			}
		} else if oneIn(t, 10, "hugePur") {
			pp.FeePur = pick(t, hugeFees, "hugePurV")
		}
	case ParamsStr:
		pp.ValFee = pick(t, []string{"0", "1", "0.01", "0.5", "0.000000000000000001", "0.999999999999999999", "0.03", "0.24"}, "valFee")
		if invalid {
			pp.ValFee = pick(t, []string{"-0.01", "1.000000000000000001", "2", "nil", "-1"}, "badFee")
		}
	}
	return pp
}

func genDt(t *rapid.T, p *Profile, g *lab.GenesisCfg) int64 {
	lim := int64(g.Ent.TimeLimit) * 1000
	opts := []int64{0, 1, 500, 999, 1000, 1000, 1000, 1001, 2000, 5000, 5000, 11000, lim - 1000, lim, lim + 1000, lim + 2000, 60000, 61000}
	if p.LongTime {
		opts = append(opts, 3600_000, 86400_000, 31536000_000, 10*31536000_000)
	}
	if oneIn(t, 5, "dtRand") {
		return int64(uniRange(t, 0, 30000, "dtLit"))
	}
	v := pick(t, opts, "dt")
	if v < 0 {
		v = 0
	}
	return v
}

// GenScenario draws a whole history.
func GenScenario(t *rapid.T, p *Profile) *Scenario {
	s := &Scenario{Gen: GenGenesis(t, p)}
	nAcc := len(s.Gen.Accounts)
	nb := uniRange(t, p.MinBlocks, p.MaxBlocks, "nBlocks")
	feeModes := p.FeeModes
	if len(feeModes) == 0 {
		feeModes = []int{FeeExact}
	}
	if p.NodeMinGas && oneIn(t, 3, "nodeMinGas") {
		s.MinGasPrices = pick(t, []string{"0.0001nund", "0.00002nund", "25.0nund", "0.0001nund,0.001stake", "0.004nund"}, "nodeMinGasV")
	}
	for b := 0; b < nb; b++ {
		blk := Block{DtMs: genDt(t, p, &s.Gen)}
		if oneIn(t, 7, "dtToZero") {
			blk.DtRule = pick(t, []int{1, 1, 2}, "dtRule")
			blk.DtRef = uniRange(t, 0, 5, "dtRef")
		}
		if b > 0 && p.PReimport > 0 && pct(t, p.PReimport, "reimport") {
			blk.Reimport = true
		}
		ntx := uniRange(t, 0, p.MaxTxs, "nTxs")
		for i := 0; i < ntx; i++ {
			tx := Tx{}
			nops := 1
			multi := p.MultiPct
			if multi == 0 {
				multi = 10
			}
			if p.MaxOps > 1 && pct(t, multi, "multi") {
				nops = uniRange(t, 2, p.MaxOps, "nOps")
			}
			multiTarget := false
			for j := 0; j < nops; j++ {
				kind := pickKind(t, p.Weights)
				if j == 0 && (kind == WrkPur || kind == BcnPur) && p.PMultiTarget > 0 && p.MaxOps > 1 && pct(t, p.PMultiTarget, "multiTarget") {
					// one transaction purchasing storage for several targets (the slot pre-check groups the messages by target)
					multiTarget = true
					nops = uniRange(t, 2, 4, "multiTargetN")
				}
				if j > 0 && (tx.Ops[0].Kind == WrkReg || tx.Ops[0].Kind == BcnReg) && pct(t, p.PForward, "forwardRef") {
					// register; then use the registration made earlier in the same transaction (forward reference
					// to the identifier it will receive) - whether the tx then commits or is rolled back
					k2 := map[string][]string{WrkReg: {WrkRec, WrkRec, WrkPur}, BcnReg: {BcnRec, BcnRec, BcnPur}}[tx.Ops[0].Kind]
					op := GenOp(t, p, pick(t, k2, "fwdKind"), nAcc)
					op.Actor, op.Named, op.Peer, op.Upper = tx.Ops[0].Actor, tx.Ops[0].Named, tx.Ops[0].Peer, tx.Ops[0].Upper
					op.Ref, op.Rule = -4, 0
					tx.Ops = append(tx.Ops, op)
					if j == nops-1 && uni(t, 10, "fwdTail") < 6 {
						// ... followed by a message of the same module that fails in execution (unknown identifier),
						// so that everything the transaction did is rolled back
						tail := GenOp(t, p, op.Kind, nAcc)
						tail.Actor, tail.Named, tail.Peer, tail.Upper = op.Actor, op.Named, op.Peer, op.Upper
						tail.Ref = -1
						tx.Ops = append(tx.Ops, tail)
					}
					continue
				}
				if j > 0 && multiTarget {
					op := GenOp(t, p, tx.Ops[0].Kind, nAcc)
					op.Actor, op.Named, op.Peer, op.Upper = tx.Ops[0].Actor, tx.Ops[0].Named, tx.Ops[0].Peer, tx.Ops[0].Upper
					op.Ref = pick(t, []int{tx.Ops[0].Ref + 1, tx.Ops[0].Ref + 2, tx.Ops[0].Ref, -1, -1}, "multiTargetRef")
					tx.Ops = append(tx.Ops, op)
					continue
				}
				if j > 0 && pct(t, p.PSameKind, "sameKind") {
					// the same operation again on the same target by the same party (per-message accumulation paths)
					op := GenOp(t, p, tx.Ops[0].Kind, nAcc)
					op.Actor, op.Named, op.Ref, op.Peer, op.Upper = tx.Ops[0].Actor, tx.Ops[0].Named, tx.Ops[0].Ref, tx.Ops[0].Peer, tx.Ops[0].Upper
					if oneIn(t, 3, "otherTarget") {
						// ... or on a neighbouring target, or on one that does not exist
						op.Ref = pick(t, []int{tx.Ops[0].Ref + 1, tx.Ops[0].Ref + 1, -1}, "otherTargetRef")
					}
					tx.Ops = append(tx.Ops, op)
					continue
				}
				tx.Ops = append(tx.Ops, GenOp(t, p, kind, nAcc))
			}
			if pct(t, p.PCheck, "checkOnly") {
				tx.Check = true
				tx.Fee.Mode = pick(t, feeModes, "feeMode")
				tx.Fee.Amt = pick(t, []string{"1", "1", "2", "1000"}, "feeDelta")
				if tx.Fee.Mode == FeeSubset {
					tx.Fee.Amt = pick(t, []string{"1", "2", "3", "4", "5", "6", "8", "9", "10", "12"}, "feeSubset")
				}
				tx.Fee.Extra = pick(t, []string{"1", "5", "1000"}, "feeExtra")
			} else if p.PCheck == 0 {
				tx.Fee.Mode = pick(t, feeModes, "feeMode")
			}
			if p.GasSweep && oneIn(t, 8, "lowGas") {
				tx.Gas = uint64(pick(t, []int{1, 1000, 20000, 40000, 55000, 60000, 70000, 80000, 90000, 100000, 120000, 150000}, "gas"))
			}
			if p.NodeMinGas && tx.Check && oneIn(t, 3, "checkGas") {
				tx.Gas = uint64(pick(t, []int{200000, 400000, 1000000, 10000000, 50000000, 250000}, "checkGasV"))
			}
			if p.PBulk > 0 && !tx.Check && uni(t, 1000, "bulk") >= 1000-p.PBulk {
				tx.Repeat = pick(t, []int{100, 101, 101, 130, 260}, "bulkN")
			}
			if pct(t, p.PGranter, "granter") {
				tx.Granter = -1
				if oneIn(t, 3, "anyGranter") {
					tx.Granter = 1 + uniRange(t, 0, nAcc-1, "granterIdx")
				}
			}
			if pct(t, p.PFeePayer, "feePayer") {
				tx.FeePayer = 1 + uniRange(t, 0, nAcc-1, "feePayerIdx")
			}
			if pct(t, p.PFault, "fault") {
				tx.Fault = uniRange(t, 1, 4, "faultKind")
				if pct(t, p.PTamper, "tamper") {
					tx.Fault = lab.FaultTamper
					tx.TamperK = uniRange(t, 0, 11, "tamperK")
				}
			}
			if pct(t, p.PAmino, "amino") {
				tx.Amino = true
			}
			if len(tx.Ops) >= 2 && pct(t, p.PExecTail, "execTail") {
				tx.Wrap = WrapExecTail
				tx.TailSelf = oneIn(t, 2, "tailSelf")
				if k2 := map[string][]string{WrkReg: {WrkRec, WrkPur}, WrkRec: {WrkRec, WrkPur}, WrkPur: {WrkRec, WrkPur}, BcnReg: {BcnRec, BcnPur}, BcnRec: {BcnRec, BcnPur}, BcnPur: {BcnRec, BcnPur}}[tx.Ops[0].Kind]; tx.TailSelf && k2 != nil && oneIn(t, 2, "tailSameModule") {
					// ... and they are operations of the first message's module on whatever registrations exist
					for j := 1; j < len(tx.Ops); j++ {
						if tx.Ops[j].Ref == -4 {
							continue
						}
						tx.Ops[j] = GenOp(t, p, pick(t, k2, "tailKind"), nAcc)
					}
				}
			} else if pct(t, p.PExec, "exec") {
				tx.Wrap = pick(t, []int{WrapExec, WrapExec, WrapExec, WrapExec2}, "wrap")
				tx.Grantee = -1
				if !tx.Check && uni(t, 2, "execNoFee") == 1 {
					tx.Fee.Mode = FeeNone // nested operations are not fee-checked; a real submitter would not pay
				}
				if oneIn(t, 5, "anyGrantee") {
					tx.Grantee = uniRange(t, 0, nAcc-1, "grantee")
				}
			}
			blk.Txs = append(blk.Txs, tx)
		}
		if pct(t, p.PGovParams, "govParams") {
			kinds := p.GovKinds
			if len(kinds) == 0 {
				kinds = []string{ParamsEnt, ParamsWrk, ParamsBcn, ParamsStr}
			}
			kind := pick(t, kinds, "govKind")
			op := GenOp(t, p, kind, nAcc)
			op.Actor, op.Named = -1, -1
			op.Flag = oneIn(t, 7, "veto")
			if pct(t, p.PGovRaise, "govRaise") {
				blk.Txs = append(blk.Txs, Tx{Ops: []Op{{Kind: EntWL, Actor: -1, Named: -1, Flag: true, N: uint64(uniRange(t, 0, 3, "govWLSigner")), Peer: nAcc + 3}}})
				op = Op{Kind: EntRaise, Actor: -1, Named: -1, Rule: 9, Amt: genAmount(t, false, "govRaiseAmt")}
				switch uni(t, 4, "govAsSigner") {
				case 0:
					// ... or the governance account presents itself as an enterprise signer (it is the modules' authority, not a signer)
					op = Op{Kind: EntWL, Actor: -1, Named: -1, Rule: 9, Flag: true, Peer: uniRange(t, 0, nAcc+3, "govWLTarget")}
				case 1:
					op = Op{Kind: EntDecide, Actor: -1, Named: -1, Rule: 9, Flag: true, Ref: uniRange(t, 0, 5, "govDecideRef")}
				}
			}
			if pct(t, p.PGovSendSwitch, "govSendSwitch") {
				op = Op{Kind: BankSendEnabled, Actor: -1, Named: -1, Denom: pick(t, []int{0, 0, 1, 2}, "switchDenom"), Flag: oneIn(t, 4, "switchOn")}
			}
			blk.Txs = append(blk.Txs, Tx{Ops: []Op{op}, Wrap: WrapGov})
		}
		if p.Crashes && oneIn(t, 4, "crash") {
			blk.Crash = uniRange(t, 1, 4, "crashPhase")
			blk.CrashK = uniRange(t, 0, 4, "crashK")
		}
		s.Blocks = append(s.Blocks, blk)
	}
	// a backlog motif: after a bulk of raised orders, every signer approves the whole backlog in the next block
	for b := 0; b+1 < len(s.Blocks); b++ {
		bulkRaise := false
		for _, tx := range s.Blocks[b].Txs {
			if tx.Repeat > 1 && len(tx.Ops) > 0 && tx.Ops[0].Kind == EntRaise {
				bulkRaise = true
			}
		}
		if bulkRaise && uni(t, 3, "backlogApproval") != 0 {
			var extra []Tx
			for k := 0; k < 4; k++ {
				for part := 0; part < 3; part++ { // a batch carries at most 40 decisions
					extra = append(extra, Tx{Ops: []Op{{Kind: EntDecide, Actor: -1, Named: -1, Peer: k, Rule: 2, Flag: true}}})
				}
			}
			s.Blocks[b+1].Txs = append(extra, s.Blocks[b+1].Txs...)
			s.Blocks[b+1].DtMs = 1000
		}
	}
	if len(s.Blocks) >= 4 && pct(t, p.PQuorumConflict, "quorumConflict") {
		b := uniRange(t, 0, len(s.Blocks)-4, "quorumConflictAt")
		raise := Tx{Ops: []Op{{Kind: EntRaise, Actor: -1, Named: -1, Peer: uniRange(t, 0, nAcc-1, "qcPurchaser"), Amt: genAmount(t, false, "qcAmt")}}, Repeat: pick(t, []int{1, 3, 12, 48}, "qcOrders")}
		s.Blocks[b].Txs = append([]Tx{raise}, s.Blocks[b].Txs...)
		var extra []Tx
		for k := 0; k < 2; k++ {
			for part := 0; part < 2; part++ {
				extra = append(extra, Tx{Ops: []Op{{Kind: EntDecide, Actor: -1, Named: -1, Peer: k, Rule: 2, Flag: k == 0}}})
			}
		}
		pp := GenParams(t, &Profile{ValidParams: true}, ParamsEnt, nAcc)
		pp.Steer = 3
		if oneIn(t, 3, "qcOneSigner") {
			pp.Signers, pp.MinAccepts = pp.Signers[:1], 1
		}
		extra = append(extra, Tx{Ops: []Op{{Kind: ParamsEnt, Actor: -1, Named: -1, P: pp}}, Wrap: WrapGov})
		s.Blocks[b+1].Txs = append(extra, s.Blocks[b+1].Txs...)
		s.Blocks[b+1].DtMs = 1000
		// the proposal passes after the voting period; the orders stay undecided until then if the time limit allows
		s.Blocks[b+2].DtMs = int64(lab.VotingPeriodS+1) * 1000
		s.Blocks[b+2].DtRule = 0
	}
	if p.SteerExport && len(s.Blocks) >= 3 {
		// steer towards interesting export points (export is taken after two thirds of the blocks)
		k := len(s.Blocks)*2/3 - 1
		extra := []Tx{
			{Ops: []Op{{Kind: EntRaise, Actor: -1, Named: -1, Peer: uniRange(t, 0, nAcc-1, "steerPurchaser"), Amt: genAmount(t, false, "steerAmt")}}},
			{Ops: []Op{{Kind: StrCreate, Actor: -1, Named: -1, Peer: uniRange(t, 0, nAcc-1, "steerRecv"), N: pick(t, []uint64{1, 2, 10}, "steerRate"), M: pick(t, []uint64{600, 86400, 31536000}, "steerDur"), Amt: "0", Denom: pick(t, []int{0, 1, 2}, "steerDenom")}}},
		}
		s.Blocks[k].Txs = append(extra, s.Blocks[k].Txs...)
		s.Blocks[k].DtMs = 1000
	}
	return s
}
