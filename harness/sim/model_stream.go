package sim

import (
	"math/big"
	"sort"
)

var (
	big0     = big.NewInt(0)
	big1000  = big.NewInt(1000)
	bigE18   = new(big.Int).Exp(big.NewInt(10), big.NewInt(18), nil)
	maxInt64 = new(big.Int).SetUint64(1<<63 - 1)
)

// StreamM is the exact schedule of one payment stream (C10, C11, C12).
type StreamM struct {
	Receiver, Sender string // address keys
	Denom            string
	Deposit          *big.Int // remaining
	Rate             int64
	LastMs           int64    // last release / funding point (unix ms)
	ZeroMs           *big.Int // advertised deposit-zero time (unix ms), exact
	// lifetime accounting (C10)
	In, PaidReceiver, Fees, Refunded *big.Int
}

type StreamModel struct {
	FeeScaled *big.Int // validator fee rate x 10^18
	Streams   map[string]*StreamM
}

func NewStreamModel() *StreamModel {
	return &StreamModel{FeeScaled: new(big.Int), Streams: map[string]*StreamM{}}
}

func skey(receiver, sender string) string { return receiver + "|" + sender }

func (m *StreamModel) Get(receiver, sender string) *StreamM { return m.Streams[skey(receiver, sender)] }

func (m *StreamModel) Sorted() []*StreamM {
	keys := make([]string, 0, len(m.Streams))
	for k := range m.Streams {
		keys = append(keys, k)
	}
	sort.Strings(keys)
	out := make([]*StreamM, 0, len(keys))
	for _, k := range keys {
		out = append(out, m.Streams[k])
	}
	return out
}

// floorDivSeconds: deposit / rate in whole seconds.
func durationSecs(dep *big.Int, rate int64) *big.Int {
	if rate <= 0 {
		return new(big.Int)
	}
	return new(big.Int).Quo(dep, big.NewInt(rate))
}

func msFromSecs(s *big.Int) *big.Int { return new(big.Int).Mul(s, big1000) }

// Release is the outcome of one settlement.
type Release struct {
	Paid, Fee, ToReceiver *big.Int
}

// settle computes the release at time nowMs per the statement of C11 and applies it.
func (m *StreamModel) settle(s *StreamM, nowMs int64) Release {
	paid := new(big.Int)
	now := big.NewInt(nowMs)
	if s.Deposit.Sign() > 0 {
		if now.Cmp(s.ZeroMs) >= 0 {
			paid.Set(s.Deposit)
		} else {
			secs := (nowMs - s.LastMs) / 1000
			if secs < 0 {
				secs = 0
			}
			paid.Mul(big.NewInt(s.Rate), big.NewInt(secs))
			if paid.Cmp(s.Deposit) > 0 {
				paid.Set(s.Deposit)
			}
		}
	}
	fee := new(big.Int).Mul(paid, m.FeeScaled)
	fee.Quo(fee, bigE18)
	toR := new(big.Int).Sub(paid, fee)
	s.Deposit = new(big.Int).Sub(s.Deposit, paid)
	s.LastMs = nowMs
	s.PaidReceiver.Add(s.PaidReceiver, toR)
	s.Fees.Add(s.Fees, fee)
	return Release{Paid: paid, Fee: fee, ToReceiver: toR}
}

func (m *StreamModel) Create(receiver, sender, denom string, dep *big.Int, rate int64, nowMs int64) *StreamM {
	s := &StreamM{Receiver: receiver, Sender: sender, Denom: denom, Deposit: new(big.Int).Set(dep), Rate: rate, LastMs: nowMs,
		In: new(big.Int).Set(dep), PaidReceiver: new(big.Int), Fees: new(big.Int), Refunded: new(big.Int)}
	s.ZeroMs = new(big.Int).Add(big.NewInt(nowMs), msFromSecs(durationSecs(dep, rate)))
	m.Streams[skey(receiver, sender)] = s
	return s
}

func (m *StreamModel) Claim(s *StreamM, nowMs int64) Release { return m.settle(s, nowMs) }

// TopUp: a running stream is extended; an expired one is settled and re-funded from now.
func (m *StreamModel) TopUp(s *StreamM, amt *big.Int, nowMs int64) (rel Release, settled bool) {
	now := big.NewInt(nowMs)
	ext := msFromSecs(durationSecs(amt, s.Rate))
	if now.Cmp(s.ZeroMs) >= 0 {
		rel = m.settle(s, nowMs) // pays the whole remainder (possibly zero); funding point = now
		settled = true
		s.ZeroMs = new(big.Int).Add(now, ext)
	} else {
		rel = Release{Paid: new(big.Int), Fee: new(big.Int), ToReceiver: new(big.Int)}
		s.ZeroMs = new(big.Int).Add(s.ZeroMs, ext)
	}
	s.Deposit = new(big.Int).Add(s.Deposit, amt)
	s.In.Add(s.In, amt)
	return
}

func (m *StreamModel) UpdateRate(s *StreamM, rate int64, nowMs int64) Release {
	rel := Release{Paid: new(big.Int), Fee: new(big.Int), ToReceiver: new(big.Int)}
	now := big.NewInt(nowMs)
	if s.Deposit.Sign() > 0 {
		rel = m.settle(s, nowMs)
		s.ZeroMs = new(big.Int).Add(now, msFromSecs(durationSecs(s.Deposit, rate)))
	} else {
		s.ZeroMs = now
	}
	s.Rate = rate
	return rel
}

func (m *StreamModel) Cancel(s *StreamM, nowMs int64) (rel Release, refund *big.Int) {
	rel = m.settle(s, nowMs)
	refund = new(big.Int).Set(s.Deposit)
	s.Refunded.Add(s.Refunded, refund)
	s.Deposit = new(big.Int)
	delete(m.Streams, skey(s.Receiver, s.Sender))
	return
}
