#!/usr/bin/env python3
"""Writes MANIFEST.json from the table below (kept in one place so that it stays valid)."""
import json, os
ROOT = os.path.dirname(os.path.abspath(__file__))

CLAIMED = json.load(open(os.path.join(ROOT, "claims.json")))
props = [json.loads(l) for l in open(os.path.join(ROOT, "properties.jsonl"))]
checks, na = [], []
for p in props:
    pid = p["id"]
    c = CLAIMED.get(pid)
    if not c or not c.get("claimed", True):
        na.append({"property_id": pid, "reason": (c or {}).get("reason", "check not built yet in this session (see DESIGN.md section 3 for the plan)")})
        continue
    checks.append({
        "property_id": pid,
        "quick_cmd": "./check %s quick" % pid,
        "thorough_cmd": "./check %s thorough" % pid,
        "evidence_file": "/verif/evidence/%s.json" % pid,
        "replay_cmd_template": "./check %s --replay {path}" % pid,
        "engine": c["engine"],
        "level_claimed": {"category": "exploration", "text": c["level_text"], "design_ref": c.get("design_ref", "DESIGN.md section 3, " + pid)},
        "level_note": c["level_note"],
        "technique": c["technique"],
    })
m = {
    "version": 1,
    "setup_cmd": "./setup.sh",
    "hooks": {
        "guard": "verif",
        "enable": "none needed: every observation goes through exported keepers of app.App, ABCI calls and gRPC query paths; the harness module builds /repo's working tree through a replace directive (go test -c in /verif/harness)",
        "baseline_off_cmd": "cd /repo && GOFLAGS=-mod=readonly go test -vet=off -count=1 -timeout 25m ./...",
        "source_commits": [],
        "add_only": True,
    },
    "engines": [
        {"name": "lab", "path": "harness/lab", "serves_properties": [c["property_id"] for c in checks if c["engine"] != "pure"], "kind_free_text": "in-process driver of the real application through ABCI (InitChain/CheckTx/BeginBlock/DeliverTx/EndBlock/Commit/Query/export) with recover() around every call"},
        {"name": "sim", "path": "harness/sim", "serves_properties": [c["property_id"] for c in checks if c["engine"] == "sim"], "kind_free_text": "rapid generators of whole signed-transaction histories (plain-data scenarios), executor, exact reference models (enterprise, registry, stream, fee), per-property oracles, minimiser and replay"},
        {"name": "pure", "path": "harness/pure", "serves_properties": [c["property_id"] for c in checks if c["engine"] == "pure"], "kind_free_text": "rapid + native fuzz targets for pure functions (key codecs, denomination conversion)"},
    ],
    "checks": checks,
    "not_applicable": na,
    "notes": "All checks are property-based tests / fuzzers (pgregory.net/rapid v1.3.0 + go test -fuzz in thorough tiers). ./check exits 0 / 1 (VIOLATION line) / 2 (inconclusive). Known findings: /verif/known_findings.txt.",
}
json.dump(m, open(os.path.join(ROOT, "MANIFEST.json"), "w"), indent=1)
print("claimed", len(checks), "not_applicable", len(na))
