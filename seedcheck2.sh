#!/bin/bash
# usage: seedcheck2.sh <worktree-with-the-change-applied> <property> [tier...]
# Runs the property's check with the harness built against the seed's scratch worktree (VERIF_REPO), leaving /repo
# untouched; evidence and replays of such runs go under build/alt-*/. Used while other runs need /repo unchanged;
# the final confirmation of a seed is still seedcheck.sh (git apply to /repo, check, revert).
WT=$1; PROP=$2; shift 2; TIERS=${*:-quick}
cd /verif
for T in $TIERS; do
  echo "== VERIF_REPO=$WT ./check $PROP $T (VERIF_SEED=${VERIF_SEED:-1})"
  VERIF_REPO=$WT VERIF_NO_REGRESS=1 timeout 6000 ./check $PROP $T 2>&1 | grep -a -v "^built" | tail -${TAILN:-14}
done
