#!/usr/bin/env python3
"""save_seed.py <seed-id> <worktree> <property> <caught-by> <needs...>  -> /verif/seeded/<seed-id>/"""
import json, os, shutil, subprocess, sys
sid, wt, prop, caught = sys.argv[1:5]
needs = " ".join(sys.argv[5:])
d = os.path.join("/verif/seeded", sid)
os.makedirs(d, exist_ok=True)
shutil.copy(os.path.join(wt, "seeded.patch"), os.path.join(d, "patch.diff"))
if os.path.exists(os.path.join(wt, "SEEDED.md")):
    shutil.copy(os.path.join(wt, "SEEDED.md"), os.path.join(d, "SEEDED.md"))
st = subprocess.run(["git", "-C", wt, "status", "--porcelain"], stdout=subprocess.PIPE, text=True).stdout
demos = [l.split()[-1] for l in st.splitlines() if l.strip().endswith("_test.go")]
for dm in demos:
    shutil.copy(os.path.join(wt, dm), os.path.join(d, os.path.basename(dm) + ".txt"))
meta = {
    "property": prop, "seed": sid, "needs_to_manifest": needs, "demo_files": [{"path_in_repo": dm, "saved_as": os.path.basename(dm) + ".txt"} for dm in demos],
    "confirmed": "demo fails with patch.diff applied and passes without it; the repository's suite (go test -vet=off -count=1 ./...) passes with the patch; confirmed with /verif/seedtest.sh in the seed's scratch worktree",
    "ran": "git -C /repo apply patch.diff; ./check %s quick [thorough]; git -C /repo checkout -- ." % prop,
    "caught_by": caught,
}
json.dump(meta, open(os.path.join(d, "meta.json"), "w"), indent=1)
print("saved", d, demos)
