#!/bin/bash
# usage: mkregress.sh id...   -> /verif/regress/<prop>/seed-<id>.json from the replay the quick check writes for that seed
cd /verif
for id in "$@"; do
  prop=$(python3 -c "import json;print(json.load(open('/verif/seeded/$id/meta.json'))['property'])")
  [ -f regress/$prop/seed-$id.json ] && { echo "$id: exists"; continue; }
  wt=/tmp/seedwt/rg-$id
  git -C /repo worktree add --detach $wt HEAD >/dev/null 2>&1 || { echo "$id: worktree failed"; continue; }
  git -C $wt apply /verif/seeded/$id/patch.diff || { echo "$id: patch failed"; git -C /repo worktree remove --force $wt; continue; }
  out=$(VERIF_REPO=$wt VERIF_NO_REGRESS=1 VERIF_SEED=1 timeout 1500 ./check $prop quick 2>&1 | grep -a "^VIOLATION" | tail -1)
  rp=$(echo "$out" | sed -n 's/.*replay=\([^ ]*\).*/\1/p')
  if [ -n "$rp" ] && [ -f "$rp" ]; then
    mkdir -p regress/$prop; cp "$rp" regress/$prop/seed-$id.json; echo "$id: saved $(wc -c < $rp) bytes"
  else
    echo "$id: no replay ($out)"
  fi
  git -C /repo worktree remove --force $wt
  h=$(python3 -c "import hashlib,os;print(hashlib.sha256(os.path.abspath('$wt').encode()).hexdigest()[:10])")
  rm -rf build/alt-$h
done
