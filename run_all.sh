#!/bin/bash
# run_all.sh <tier> [seed...]: runs every check once per seed on the current tree, prints one line per run.
TIER=${1:-quick}; shift; SEEDS=${*:-1}
cd "$(dirname "$0")"
for S in $SEEDS; do
  for P in C01 C02 C03 C04 C05 C06 C07 C08 C09 C10 C11 C12 C13 C14 C15 C16 C17 C18 C19 C20; do
    OUT=$(VERIF_SEED=$S timeout 7200 ./check $P $TIER 2>&1); RC=$?
    echo "seed=$S $P rc=$RC $(echo "$OUT" | grep -E '^(OK|VIOLATION|INCONCLUSIVE)' | tail -1)"
    if [ $RC -ne 0 ]; then echo "$OUT" | grep -v "rapid\] draw" | tail -15; fi
  done
done
