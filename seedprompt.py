#!/usr/bin/env python3
import json, sys, os
pid, sid, flavour = sys.argv[1], sys.argv[2], " ".join(sys.argv[3:])
props = {json.loads(l)['id']: json.loads(l) for l in open('/verif/properties.jsonl')}
p = props[pid]
print(f"""You are helping test the sensitivity of a verification effort for the Go repository unification-com/mainchain (a Cosmos SDK v0.47 application chain, binary `und`, with custom modules x/enterprise, x/wrkchain, x/beacon, x/stream). Your job: write ONE realistic, subtle code change ("seeded defect") that BREAKS the semantic property below, while the repository still compiles and its whole existing test suite still passes.

## The property ({p['title']})

{p['statement']}

It is meant to hold: {p['quantifier']['text']}.

## Your scratch worktree

`/tmp/seedwt/{sid}` is your own git worktree of the repository (detached HEAD, clean). Work ONLY inside it. Do not read, list or touch `/verif` or anything under it, and do not modify `/repo` (read nothing from there either; your worktree has the same code). Do not create other worktrees.

Environment for every shell command (there is no network; env does not persist between commands):
`export GOFLAGS=-mod=readonly GOPROXY=off GOSUMDB=off GOTOOLCHAIN=local`
Never use `-mod=mod`. Build: `go build ./...`. Whole suite: `go test -vet=off -count=1 -timeout 25m ./...` (takes a few minutes; all packages must print `ok`). Run it with a long timeout.

## What kind of change

A change a plausible developer could make (an "optimisation", a refactoring, a small feature, a boundary tweak, a cache, a reordering) in NON-test source files of the repository (app/, ante/, x/..., cmd/...). It must:
1. compile, and leave the existing suite (all `_test.go` files, unedited) passing;
2. genuinely violate the property as stated above, observable through the chain's public surface (transactions, blocks, queries, export/import, CLI) — not merely through an internal helper nobody calls;
3. need something SPECIFIC to manifest — a particular multi-step sequence of operations, an unusual but legal input or parameter value, a particular interleaving / block boundary / restart point, a particular state size, or two cooperating code sites that each look fine alone. It must NOT be exposed at once by ordinary use (e.g. "every registration fails" or "every claim pays double" is too shallow). Ordinary flows must behave exactly as before.
{('Flavour suggestion (optional; any genuinely subtle violation of the property is welcome): ' + flavour) if flavour else ''}
{('Ideas that are ALREADY TAKEN by earlier changes - do not reuse these ideas or code sites, find a different mechanism: ' + os.environ['TAKEN']) if os.environ.get('TAKEN') else ''}
Keep the change small (typically 5-40 changed lines) and do not touch test files, go.mod, go.sum, generated *.pb.go files or docs.

## Deliverables (all inside `/tmp/seedwt/{sid}`)

1. The change applied to the worktree's tracked source files, AND saved as a patch: `git diff > seeded.patch` (run from the worktree root, BEFORE adding any new untracked files to git; the patch must contain only your source change and must apply with `git apply` to a clean checkout of the same commit).
2. A demonstration: ONE new untracked Go test file named `zz_seeded_demo_test.go` placed in a suitable existing package directory of the worktree (e.g. `x/enterprise/keeper/`, `app/`, ...), containing test function(s) whose names start with `TestSeededDemo`. It must FAIL with your change applied and PASS with the change reverted (`git apply -R seeded.patch`, run the demo, then `git apply seeded.patch` again). Use the repository's existing test helpers (look at existing tests in that package for how an app/context/keeper is set up). The demo should check the property itself (the behaviour a user relies on), not an implementation detail.
3. `SEEDED.md` at the worktree root: which site(s) you changed and why it looks innocent, why it breaks the property, exactly what is needed for it to manifest (the conjunction of conditions), how to run the demo, and the observed results with and without the change, and that the full suite passes with it.

Verify all of it yourself before finishing: build, demo fails with the change, demo passes without it, full existing suite passes with the change (move the demo file aside or leave it — it is fine if only the demo fails). Leave the worktree in the state "change applied + seeded.patch + demo file + SEEDED.md". Do not commit anything.

In your final message give: the changed file(s)/function(s), a one-sentence description of what is needed for the violation to manifest, the demo's package path and test name, and the pass/fail results you observed.""")
