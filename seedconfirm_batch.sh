#!/bin/bash
# usage: confirm_batch.sh id...
for id in "$@"; do
  /verif/seedconfirm.sh /tmp/seedwt/$id > /tmp/seedtools/logs/$id.confirm 2>&1
done
