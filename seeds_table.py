#!/usr/bin/env python3
"""Prints the markdown table of DESIGN.md section 8.4 from seeded/*/meta.json."""
import glob, json, os
rows = []
for f in sorted(glob.glob(os.path.join(os.path.dirname(os.path.abspath(__file__)), "seeded", "*", "meta.json"))):
    m = json.load(open(f))
    rows.append("| `%s` | %s | %s | %s |" % (m["seed"], m["property"], m["needs_to_manifest"].replace("|", "/"), m["caught_by"].replace("|", "/")))
print("| Seed | Property | What it needs to manifest | Caught by |\n|---|---|---|---|")
print("\n".join(rows))
