#!/bin/bash
# usage: seedmatrix.sh <out-file> [verif-seed...]   (default seeds: 1 2 3)
# Sensitivity matrix: every seeded change under /verif/seeded is applied in a scratch worktree (never /repo) and its
# property's quick check is run by generation alone (no regression corpus) once per VERIF_SEED value.
OUT=$(realpath -m "$1"); shift; SEEDS=${*:-1 2 3}
HERE=$(cd "$(dirname "$0")" && pwd)
WT=/tmp/seedwt/matrix-$$
cd /repo && git worktree remove --force $WT 2>/dev/null; git worktree add --detach $WT HEAD >/dev/null 2>&1 || exit 2
cd "$HERE"
mkdir -p /tmp/seedtools/logs
: > $OUT
for d in seeded/*/; do
  id=$(basename $d); prop=$(python3 -c "import json;print(json.load(open('$d/meta.json'))['property'])")
  (cd $WT && git checkout -q -- . && git apply $HERE/$d/patch.diff) || { echo "$id patch-failed" >> $OUT; continue; }
  line="$id $prop"
  for s in $SEEDS; do
    VERIF_SEED=$s VERIF_REPO=$WT VERIF_NO_REGRESS=1 timeout 3000 ./check $prop quick > /tmp/seedtools/logs/matrix-$id-$s.log 2>&1; rc=$?
    line="$line seed$s=rc$rc"
  done
  echo "$line" >> $OUT
done
cd /repo && git worktree remove --force $WT
echo DONE >> $OUT
