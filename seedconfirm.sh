#!/bin/bash
# usage: seedconfirm.sh <worktree>
# Phase 1 (touches only the seed's scratch worktree): the demonstration fails with the change and
# passes without it; the repository's whole suite passes with the change.
set -u
WT=$1
export GOFLAGS=-mod=readonly GOPROXY=off GOSUMDB=off GOTOOLCHAIN=local
cd "$WT" || exit 2
PATCH="$WT/seeded.patch"
[ -s "$PATCH" ] || { echo "no seeded.patch"; exit 2; }
git diff --quiet || true
DEMO=$(git status --porcelain | grep '_test.go' | awk '{print $2}' | head -1)
PKG=./$(dirname "$DEMO")/
echo "== demo file $DEMO (package $PKG)"
echo "== with the change:"
timeout 900 go test -vet=off -count=1 -run 'Seeded|seeded|Demo' "$PKG" 2>&1 | tail -3
git apply -R "$PATCH" || { echo "cannot reverse patch in worktree"; exit 2; }
echo "== without the change:"
timeout 900 go test -vet=off -count=1 -run 'Seeded|seeded|Demo' "$PKG" 2>&1 | tail -3
git apply "$PATCH"
echo "== full suite with the change (excluding the demo): lines other than ok / no test files:"
mv "$DEMO" "$DEMO.off"
timeout 2400 go test -vet=off -count=1 -timeout 25m ./... 2>&1 | grep -v "no test files" | grep -v "^ok" | tail -5
echo "== suite done rc=$?"
mv "$DEMO.off" "$DEMO"
